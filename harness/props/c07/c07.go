// Package c07 monitors Accept negotiation: header.ParseAccept, middleware.NegotiateContentType,
// middleware.NegotiateContentEncoding and the 406 gate of the API handler are run on generated
// headers x offer lists and compared with a reference written from the property statement
// (package accept: RFC 7231 grammar, exact decimal q-values, lexicographic maximum of
// (q, range specificity, earlier offer)).
package c07

import (
	"encoding/json"
	"fmt"
	"io"
	"math/rand"
	"net/http"
	"net/http/httptest"
	"sort"
	"strings"

	"github.com/go-openapi/loads"
	"github.com/go-openapi/runtime"
	"github.com/go-openapi/runtime/middleware"
	"github.com/go-openapi/runtime/middleware/header"
	"github.com/go-openapi/runtime/middleware/untyped"

	"verif/gen"
	"verif/mon"
	"verif/props/c07/accept"
)

func init() {
	mon.Register(&mon.Property{
		ID:    "C07",
		Level: "exploration",
		Rule: "G1: well-formed Accept / Accept-Encoding values from the RFC 7231 grammar (1-6 ranges over a 10-type vocabulary incl. */* and type/*, parameters before and after q, parameter names ending in 'q', " +
			"quoted strings (one Accept header in eight hangs quoted values made of quoted-pairs on its ranges, in front of and behind the weight: escaped quotes, escaped backslashes - also as the last character, runs of 1 to 6 backslashes in front of the closing quote -, escaped and bare commas, semicolons and 'q=0' / ', text/html;q=1' inside the quotes; RFC 7230 quoted-string, read pair by pair by the reference), q-values with 0-80 (one long value in 25: 120-1000) fractional digits on a 1e-5 grid (same number in several spellings; distinct numbers differ by >= 5e-6; in one header in ten some or all written values are raised by one: 1.5, 1.001, 1.99999, 1.<80 digits> - the RFC's qvalue shape with any digits in the fraction, denoting numbers above 1 that compete with each other, with exactly 1 (written, or a range without q) and with values below 1), optional SP/HTAB, 1-3 field lines; one header in a hundred holds 9, 17, 33, 65 or (rarely) 257 ranges, one in a hundred is spread over 5-40 field lines, in half of both the only acceptable range comes last) x offer lists " +
			"(permutations, duplicates, offers with parameters, empty; in 6% of the cases one to three offers are spelled with upper-case letters - application/vnd.ms-excel.sheet.macroEnabled.12, X-Snappy - and the header names them verbatim) x default present/absent; G2: arbitrary bytes and byte-level mutations of G1. Every case runs the real ParseAccept and Negotiate* functions; " +
			"a share goes through the API handler (RoutesHandler over an untyped API built from generated Swagger 2.0; a body-less GET, DELETE or PUT and a POST twin with an admitted JSON body, each operation declaring one success response - 200, or 201, 202, 204 (a third of the operations; a quarter declare 204, the DELETE/PUT that answers without content) - which its handler answers with; the reflective operation handler and the call sequence of a generated server: RouteInfo, BindValidRequest, Respond - run from a Builder middleware on a Context made by NewContext, and, for a third of all requests, as the operation handler of a RoutableAPI (gen.GeneratedAPI) on a Context made by NewRoutableContext, the constructor generated servers use; one API default in ten carries parameters; one description in twelve declares types spelled with upper-case letters). " +
			"One description in two keeps an operationId of its own for every operation; in the others all operations declare none (Swagger 2.0: optional), all share one, or each draws one of the three. Every handler instance (one Context) serves several requests to several operations of its description in sequence; each response is judged by the declaration of the operation that answers. A violation seen there is reported with the smallest case that shows it on a fresh handler: the operation alone, or the whole description with the (shrunk) list of requests the handler served before (preceding_requests), which a replay serves first. " +
			"Every request of the handler level goes to a declared path and method: a request the router does not route, or that reaches the Builder's middleware without a MatchedRoute, is a violation. " +
			"The offers of an operation are computed from its DECLARATION (produces of the operation, else of the spec, plus the API default); the observed MatchedRoute.Produces must be that set and only lends its order. " +
			"The vocabulary holds types whose TYPE is a proper prefix of another (text / texture / textile), 'type/*' ranges on truncated and extended type names (tex/*, t/*, textx/*) and exact ranges one byte short or long (text/plai, text/plainx). " +
			"The library is handed copies of the offers and of the field lines; the copies must come back unmodified. " +
			"Oracle: strict grammar parser + exact decimals + the statement's selection rule; outside the grammar only totality and result-is-an-offer. " +
			"non-trivial = judged header with >= 2 acceptable ranges that match >= 2 distinct offers; distinct by (function, header lines, offers)",
		Assumptions: []string{
			"selection rule as stated: maximum over matching (range, offer) pairs of q, then range specificity (exact > type/* > */*), then earlier offer; parameters of ranges and offers are ignored for matching",
			"strong oracle only inside the grammar: lower-case type/subtype tokens, 'q' written in lower case, no whitespace around '=', no '*/subtype', qvalue = 0[.digits] | 1[.digits]; empty list elements are skipped (RFC 7230 section 7) and are part of the judged grammar; everything else is judged for totality and result-in-offers only",
			"offers and ranges with upper-case letters: whether a range and an offer that differ in letter case only match is not stated; such a pair of header and offer list is judged (same selection rule) exactly when every (range, offer) pair matches verbatim iff it matches with case ignored - a range that names an offer byte for byte matches it under every reading - and only for headers of the plain form 'range[;q=value]' with at most 5 fraction digits; the letter case of the ranges ParseAccept hands out is not judged there",
			"a q-value written 1.ddd with a non-zero fraction denotes a number above 1 and is ranked as that number (RFC 7231 caps a weight at 1; the statement's ordering clause - a smaller number never outranks a larger one, q with any number of digits - has no cap): 1.7 outranks 1.2, 1.001 outranks 1 and a range without q, each of them outranks 0.999; ParseAccept's Q must be ordered as these numbers are. Integer parts other than a single 0 or 1 (q=2, q=10, q=01.5, q=.5), signs and exponents are outside the judged grammar: whether such a parameter is a q-value at all the statement does not say",
			"headers holding two different q-values closer than 1e-6 are not judged by the strong oracle",
			"a header that is present but holds no range is not judged (the statement speaks of a missing header only)",
			"header.ParseAccept is judged on what the selection rule needs: one spec per range in order with the range's type, Q == 0 exactly for quality 0, and Q ordered/equal as the exact decimals are",
			"a choice mismatch of Negotiate*/the handler on a header whose ParseAccept result already failed its oracle is attributed to that parse violation and counted, not reported under a second signature",
			"NegotiateContentEncoding: judged for result in offers/identity/\"\", maximum q, q=0, and earlier offer among offers tied on (q, specificity); the specificity tie-break and the no-header result are not stated for encodings and not judged",
			"API handler: the offers are the declared produces list (operation level, else spec level) plus the API default; MatchedRoute.Produces must hold exactly that set (its order is a map order fixed at router build and is the only thing read from it); 406 <=> nothing in the declared set is acceptable; Content-Type is judged against the statement's offer order (produces without the default, default last); an operation declaring 201, 202 or 204 as its success response is gated like one declaring 200 (the statement's 406 clause names no exception for responses without content), success is the declared status, and the Content-Type of a 204 response is judged only when the response carries one",
			"'the media types an operation can produce' are those of the operation the request is routed to (method and path), whether or not it declares an operationId and whether or not another operation declares the same one; what a handler answered before - for this operation or another - has no part in a negotiation; preceding requests of a replayed case are served and not judged (each was judged when the run served it)",
			"the caller's offers slice and header lines must not be modified by Negotiate*/Parse* (the result is judged against copies taken before the call, so a result that is only a member of a rewritten list is 'not an offer')",
			"a quoted parameter value is an RFC 7230 quoted-string: it ends at the first DQUOTE that is not the second byte of a quoted-pair (backslash + any HTAB / SP / VCHAR / obs-text byte); what stands between the quotes belongs to that one parameter (never a weight, a parameter or a range of its own); control bytes other than HTAB inside the quotes are outside the judged grammar",
			"ParseList, ParseValueAndParams, ParseAccept2, ParseTime: totality only",
		},
		MinNontrivial: 1500,
		Run:           run,
		Replay:        replay,
	})
}

// Case is one replayable case.
type Case struct {
	Kind    string  `json:"kind"` // type | enc | total | handler
	Absent  bool    `json:"absent,omitempty"`
	Lines   []mon.Q `json:"lines"`
	Offers  []mon.Q `json:"offers,omitempty"`
	Default mon.Q   `json:"default,omitempty"`
	// handler level
	API       *APIDesc `json:"api,omitempty"`
	Op        int      `json:"op,omitempty"`
	WantOrder []string `json:"observed_produces_order,omitempty"`
	// Flow: "" the reflective (untyped) operation handler; "generated": RouteInfo, BindValidRequest, Respond as a
	// generated server's operation does, on a Context made by NewContext; "generated-routable": the same sequence as
	// the operation handler of a RoutableAPI, on a Context made by NewRoutableContext (what a generated server builds)
	Flow string `json:"flow,omitempty"`
	Body bool   `json:"body,omitempty"` // POST with an admitted JSON body (needs api.post_twin) instead of a body-less GET
	// Earlier: the Accept field lines of requests served by the same handler (same operation, flow and
	// body) just before this one; a replay serves them first, unjudged. State kept across requests is
	// part of what is judged: each request is negotiated from its own header alone.
	Earlier [][]mon.Q `json:"earlier_requests,omitempty"`
	// Before: every request the same handler instance (one Context) served before this one - to this operation or to
	// another operation of the description - in order; a replay serves them first, unjudged (before the Earlier ones).
	// The case then keeps the whole description (api.ops) instead of the one operation. Each response is negotiated over
	// the declaration of the operation that answers, whatever the handler answered before.
	Before []Prior `json:"preceding_requests,omitempty"`
}

// Prior is a request served before the judged one by the same handler.
type Prior struct {
	Op     int     `json:"op"`
	Absent bool    `json:"absent,omitempty"`
	Lines  []mon.Q `json:"lines"`
	Flow   string  `json:"flow,omitempty"`
	Body   bool    `json:"body,omitempty"`
}

func (c *Case) lines() []string {
	if c.Absent {
		return nil
	}
	l := mon.SQ(c.Lines)
	if l == nil {
		l = []string{}
	}
	return l
}

// checkParse compares ParseAccept's result with the strict parse of the same text.
func checkParse(specs []header.AcceptSpec, ranges []accept.Range) (mode, detail string) {
	vals := make([]string, len(specs))
	qs := make([]float64, len(specs))
	for i, s := range specs {
		vals[i], qs[i] = s.Value, s.Q
	}
	return accept.CheckParse(vals, qs, ranges)
}

// checkParseM: in the mixed-case reading the letter case of the ranges ParseAccept hands out is not judged.
func checkParseM(specs []header.AcceptSpec, ranges []accept.Range, mixed bool) (mode, detail string) {
	if !mixed {
		return checkParse(specs, ranges)
	}
	folded := make([]header.AcceptSpec, len(specs))
	for i, sp := range specs {
		sp.Value = strings.ToLower(sp.Value)
		folded[i] = sp
	}
	return checkParse(folded, foldRanges(ranges))
}

// ---- evaluation of one function-level case ----

type verdict struct {
	judged     bool
	why        string
	panicIn    string
	panicVal   string
	member     bool
	got        string
	pMode      string
	pDetail    string
	nMode      string
	nDetail    string
	nontrivial bool
	decidedBy  string
	want       accept.Pick
	modified   string // what of the caller's the library modified: "offers" / "header"
	mixed      bool   // judged through the mixed-case reading (offers or ranges with upper-case letters)
	above1     bool   // a q-value of the header denotes a number above 1
	quoted     string // the class of the header's quoted parameter values when one holds a quoted-pair (quotedClass)
	modDetail  string
}

func contains(l []string, s string) bool {
	for _, e := range l {
		if e == s {
			return true
		}
	}
	return false
}

// mkHeader hands the library its own copy of the field lines: the caller's slice stays the snapshot
// everything is judged against.
func mkHeader(key string, lines []string) http.Header {
	h := http.Header{}
	if lines != nil {
		h[key] = copyList(lines)
	}
	return h
}

func copyList(l []string) []string {
	if l == nil {
		return nil
	}
	out := make([]string, len(l))
	copy(out, l)
	return out
}

// headerModified compares the header the library was given with the snapshot of its lines.
func headerModified(h http.Header, key string, lines []string) string {
	want := 0
	if lines != nil {
		want = 1
	}
	switch {
	case len(h) != want:
		return fmt.Sprintf("the header map handed in with %d field(s) has %d afterwards: %q", want, len(h), h)
	case lines != nil && !sameList(h[key], lines):
		return fmt.Sprintf("field lines %q handed in, %q afterwards", lines, h[key])
	}
	return ""
}

// nontrivial: >= 2 acceptable ranges each matching some offer, and >= 2 distinct offers matched.
func nontrivial(ranges []accept.Range, offers []string, media bool) bool {
	nr := 0
	off := map[string]bool{}
	for i := range ranges {
		if ranges[i].Q().Sign() <= 0 {
			continue
		}
		hit := false
		for _, o := range offers {
			if accept.Specificity(ranges[i].Type, o, media) >= 0 {
				hit = true
				off[accept.NormOffer(o)] = true
			}
		}
		if hit {
			nr++
		}
	}
	return nr >= 2 && len(off) >= 2
}

// decidedBy tells which component of the key separated the winner from the runner-up offer.
func decidedBy(ranges []accept.Range, offers []string, win accept.Pick, media bool) string {
	if win.None {
		return "nothing-acceptable"
	}
	if win.RangeIndex < 0 {
		return "no-header"
	}
	res := "single-candidate"
	rank := 0
	for _, o := range offers {
		if accept.NormOffer(o) == accept.NormOffer(win.Offer) {
			continue
		}
		q, sp, _, ok := accept.BestFor(ranges, o, media)
		if !ok {
			continue
		}
		r := 3
		switch {
		case q.Cmp(win.Q) != 0:
			r = 1
		case sp != win.Spec:
			r = 2
		}
		if r > rank {
			rank = r
		}
	}
	switch rank {
	case 1:
		res = "q"
	case 2:
		res = "specificity"
	case 3:
		res = "offer-order"
	}
	return res
}

func evalType(lines []string, offers []string, def string) (v verdict) {
	h := mkHeader("Accept", lines)
	var specs []header.AcceptSpec
	if pv, _ := mon.Catch(func() { specs = header.ParseAccept(h, "Accept") }); pv != nil {
		v.panicIn, v.panicVal = "ParseAccept", fmt.Sprint(pv)
		return v
	}
	req := &http.Request{Method: http.MethodGet, Header: h}
	given := copyList(offers) // the library's copy; offers stays untouched
	if pv, _ := mon.Catch(func() { v.got = middleware.NegotiateContentType(req, given, def) }); pv != nil {
		v.panicIn, v.panicVal = "NegotiateContentType", fmt.Sprint(pv)
		return v
	}
	switch {
	case !sameList(given, offers):
		v.modified, v.modDetail = "offers", fmt.Sprintf("NegotiateContentType(Accept=%q, offers, default=%q): offers %q handed in, %q afterwards", lines, def, offers, given)
	default:
		if d := headerModified(h, "Accept", lines); d != "" {
			v.modified, v.modDetail = "header", "ParseAccept/NegotiateContentType: "+d
		}
	}
	v.member = v.got == def || contains(offers, v.got)
	p, mixed, why := judgedParse(lines, offers, true)
	if why != "" {
		v.why = why
		return v
	}
	v.judged, v.mixed, v.above1 = true, mixed, qAbove1(p.Ranges)
	if !mixed {
		v.quoted = quotedClass(p.Ranges)
	}
	if p.Present {
		v.pMode, v.pDetail = checkParseM(specs, p.Ranges, mixed)
	}
	want := accept.Select(p.Present, p.Ranges, offers, true)
	v.want = want
	v.nontrivial = p.Present && nontrivial(p.Ranges, offers, true)
	v.decidedBy = decidedBy(p.Ranges, offers, want, true)
	wantS := want.Offer
	if want.None {
		wantS = def
	}
	if v.got == wantS {
		return v
	}
	switch {
	case !v.member:
		v.nMode = "not-an-offer"
	case !p.Present:
		v.nMode = "no-header-not-first-offer"
	case want.None:
		// got is an offer although nothing is acceptable
		if accept.MatchedByZeroOnly(p.Ranges, v.got, true) {
			v.nMode = "q0-range-selected"
		} else {
			v.nMode = "unacceptable-offer-selected"
		}
	case !contains(offers, v.got):
		v.nMode = "acceptable-offer-missed"
	default:
		q, sp, _, ok := accept.BestFor(p.Ranges, v.got, true)
		switch {
		case !ok && accept.MatchedByZeroOnly(p.Ranges, v.got, true):
			v.nMode = "q0-range-selected"
		case !ok:
			v.nMode = "unacceptable-offer-selected"
		case q.Cmp(want.Q) < 0:
			v.nMode = "lower-q-preferred"
		case sp < want.Spec:
			v.nMode = "less-specific-range-preferred"
		default:
			v.nMode = "later-offer-preferred"
		}
	}
	v.nDetail = fmt.Sprintf("NegotiateContentType(Accept=%q, offers=%q, default=%q) = %q, statement gives %q", lines, offers, def, v.got, wantS)
	if !want.None && want.RangeIndex >= 0 {
		v.nDetail += fmt.Sprintf(" (range #%d %q q=%s specificity %d, offer #%d)", want.RangeIndex, p.Ranges[want.RangeIndex].Type, want.Q.FloatString(8), want.Spec, want.OfferIndex)
	}
	return v
}

func evalEnc(lines []string, offers []string) (v verdict) {
	h := mkHeader("Accept-Encoding", lines)
	var specs []header.AcceptSpec
	if pv, _ := mon.Catch(func() { specs = header.ParseAccept(h, "Accept-Encoding") }); pv != nil {
		v.panicIn, v.panicVal = "ParseAccept", fmt.Sprint(pv)
		return v
	}
	req := &http.Request{Method: http.MethodGet, Header: h}
	given := copyList(offers)
	if pv, _ := mon.Catch(func() { v.got = middleware.NegotiateContentEncoding(req, given) }); pv != nil {
		v.panicIn, v.panicVal = "NegotiateContentEncoding", fmt.Sprint(pv)
		return v
	}
	switch {
	case !sameList(given, offers):
		v.modified, v.modDetail = "offers", fmt.Sprintf("NegotiateContentEncoding(Accept-Encoding=%q, offers): offers %q handed in, %q afterwards", lines, offers, given)
	default:
		if d := headerModified(h, "Accept-Encoding", lines); d != "" {
			v.modified, v.modDetail = "header", "ParseAccept/NegotiateContentEncoding: "+d
		}
	}
	v.member = v.got == "" || v.got == "identity" || contains(offers, v.got)
	p, mixed, why := judgedParse(lines, offers, false)
	if why != "" {
		v.why = why
		return v
	}
	v.judged, v.mixed, v.above1 = true, mixed, qAbove1(p.Ranges)
	if !p.Present {
		return v // not stated for encodings
	}
	v.pMode, v.pDetail = checkParseM(specs, p.Ranges, mixed)
	want := accept.Select(true, p.Ranges, offers, false)
	v.want = want
	v.nontrivial = nontrivial(p.Ranges, offers, false)
	v.decidedBy = decidedBy(p.Ranges, offers, want, false)
	gotIsOffer := contains(offers, v.got)
	unacceptable := func() string {
		if accept.MatchedByZeroOnly(p.Ranges, v.got, false) {
			return "q0-range-selected"
		}
		return "unacceptable-offer-selected"
	}
	switch {
	case !v.member:
		v.nMode = "not-an-offer"
	case gotIsOffer:
		gq, gsp, _, gok := accept.BestFor(p.Ranges, v.got, false)
		switch {
		case gok && gq.Cmp(want.Q) < 0:
			v.nMode = "lower-q-preferred"
		case gok && gq.Cmp(want.Q) == 0 && gsp == want.Spec && v.got != want.Offer:
			v.nMode = "later-offer-preferred" // full tie on (q, specificity): the earlier offer is due
		case gok:
		case v.got == "identity": // identity standing in as the default
			if !want.None {
				v.nMode = "acceptable-offer-missed"
			}
		default:
			v.nMode = unacceptable()
		}
	default: // "" or identity as the default
		if !want.None {
			v.nMode = "acceptable-offer-missed"
		}
	}
	if v.nMode != "" {
		ws := want.Offer
		if want.None {
			ws = `"" or identity`
		}
		v.nDetail = fmt.Sprintf("NegotiateContentEncoding(Accept-Encoding=%q, offers=%q) = %q, statement gives %q (or an offer of the same quality)", lines, offers, v.got, ws)
	}
	return v
}

// ---- running a function-level case ----

type shrinkBudget struct{ n map[string]int }

var budget = shrinkBudget{n: map[string]int{}}

const shrinkCap = 300

// longShrinkCap: headers of more than 12 ranges are expensive to shrink (the reference compares q-values pairwise)
const longShrinkCap = 12

func (b *shrinkBudget) take(key string) bool {
	b.n[key]++
	return b.n[key] <= shrinkCap
}

func (b *shrinkBudget) takeFor(key string, lines []string) bool {
	if countRanges(lines) > 12 {
		b.n["long|"+key]++
		return b.n["long|"+key] <= longShrinkCap
	}
	return b.take(key)
}

func runFunc(m *mon.M, c *Case) {
	media := c.Kind != "enc"
	lines := c.lines()
	offers := mon.SQ(c.Offers)
	if offers == nil {
		offers = []string{}
	}
	def := string(c.Default)
	eval := func(l []string, o []string) verdict {
		if media {
			return evalType(l, o, def)
		}
		return evalEnc(l, o)
	}
	pfx := "type"
	fn := "NegotiateContentType"
	if !media {
		pfx, fn = "enc", "NegotiateContentEncoding"
	}
	m.Eval(1)
	v := eval(lines, offers)
	if v.panicIn != "" {
		m.Violate("panic/"+v.panicIn, fmt.Sprintf("%s panicked on %q: %s", v.panicIn, lines, v.panicVal), c)
		return
	}
	if v.modified != "" {
		m.Violate("caller-"+v.modified+"-modified/"+fn, v.modDetail, c)
	}
	if !v.member {
		m.Violate("not-an-offer/"+fn, fmt.Sprintf("%s(%q, offers=%q, default=%q) = %q which is neither an offer nor the default", fn, lines, offers, def, v.got), c)
	}
	if !v.judged {
		m.Class(pfx + ":not-judged/" + v.why)
		return
	}
	m.Class(pfx + ":judged")
	if v.mixed {
		m.Class(pfx + ":judged/mixed-case")
	}
	if v.above1 {
		m.Class(pfx + ":judged/q-above-1")
	}
	if v.quoted != "" {
		m.Class(pfx + ":judged/" + v.quoted)
	}
	if v.decidedBy != "" {
		m.Class(pfx + ":decided-by/" + v.decidedBy)
		if v.mixed {
			m.Class(pfx + ":mixed-case-decided-by/" + v.decidedBy)
		}
		if v.above1 {
			m.Class(pfx + ":q-above-1-decided-by/" + v.decidedBy)
		}
		if v.quoted != "" {
			m.Class(pfx + ":" + v.quoted + "-decided-by/" + v.decidedBy)
		}
	}
	if v.nontrivial {
		m.NT(pfx + "|" + strings.Join(lines, "\x00") + "|" + strings.Join(offers, "\x00"))
	}
	mk := func(l, o []string) *Case {
		return &Case{Kind: c.Kind, Absent: l == nil, Lines: mon.QS(l), Offers: mon.QS(o), Default: c.Default}
	}
	shrink := func(l, o []string, media bool, fails func(l, o []string) bool) ([]string, []string) {
		pre := preShrinkLong(l, o, media, fails)
		if countRanges(pre) > 12 {
			// still long (the failure needs many ranges): the structural shrinker would try hundreds of candidates per step
			for i := 0; i < len(o) && len(o) > 1; {
				cand := append(append([]string{}, o[:i]...), o[i+1:]...)
				if fails(pre, cand) {
					o = cand
				} else {
					i++
				}
			}
			return pre, o
		}
		return accept.Shrink(pre, o, media, fails)
	}
	if v.mixed {
		shrink = shrinkMixed
	} else if v.above1 {
		structural := shrink
		shrink = func(l, o []string, media bool, fails func(l, o []string) bool) ([]string, []string) {
			sl, so := shrinkAbove1(preShrinkLong(l, o, media, fails), o, media, fails)
			if !qAbove1(parseStrict(sl, media).Ranges) {
				// what is left fails without a value above 1: the structural shrinker takes over
				return structural(sl, so, media, fails)
			}
			return sl, so
		}
	}
	if v.quoted != "" {
		// quoted values are reduced element by element after the structural shrink
		inner := shrink
		shrink = func(l, o []string, media bool, fails func(l, o []string) bool) ([]string, []string) {
			sl, so := inner(l, o, media, fails)
			return shrinkQuotedValues(sl, so, media, fails), so
		}
	}
	// the feature class of a parse violation: the header's most telling syntactic feature
	feature := func(l []string, mixed bool) []string {
		if mixed {
			return []string{"mixed-case-range"}
		}
		rs := parseStrict(l, media).Ranges
		f := accept.Features(l, rs)
		if qAbove1(rs) {
			f = append([]string{"qvalue-above-1"}, f...)
		}
		if qc := quotedClass(rs); qc != "" {
			f = append([]string{qc}, f...)
		}
		if countRanges(l) > 8 {
			f = append([]string{"more-than-8-ranges"}, f...)
		}
		return f
	}
	if v.pMode != "" {
		if v.nMode != "" {
			m.Class(pfx + ":choice-mismatch-attributed-to-parse-violation")
		}
		key := v.pMode + "/" + strings.Join(feature(lines, v.mixed), "+")
		if !budget.takeFor(key, lines) {
			m.Class("parse-violation-not-shrunk-after-cap:" + key)
			return
		}
		sl, so := shrink(lines, offers, media, func(l, o []string) bool {
			w := eval(l, o)
			return w.judged && w.pMode != ""
		})
		w := eval(sl, so)
		if !w.judged || w.pMode == "" { // cannot happen; keep the original
			sl, so, w = lines, offers, v
		}
		sig := w.pMode + "/" + feature(sl, w.mixed)[0]
		m.Violate(sig, fmt.Sprintf("header.ParseAccept(%q): %s", sl, w.pDetail), mk(sl, so))
		return
	}
	if v.nMode != "" {
		sl, so := lines, offers
		if budget.takeFor(pfx+"/"+v.nMode, lines) {
			sl, so = shrink(lines, offers, media, func(l, o []string) bool {
				w := eval(l, o)
				return w.judged && w.pMode == "" && w.nMode != ""
			})
		}
		w := eval(sl, so)
		if !w.judged || w.nMode == "" {
			sl, so, w = lines, offers, v
		}
		feat := ""
		if accept.HasOWSBeforeSemicolon(so...) {
			feat = "/offer-with-ows-before-semicolon"
		}
		if w.mixed {
			feat += "/mixed-case-offer"
		}
		if w.above1 {
			feat += "/qvalue-above-1"
		}
		if w.quoted != "" {
			feat += "/" + w.quoted
		}
		if nr := countRanges(sl); nr > 8 {
			feat += "/more-than-8-ranges"
		} else if len(sl) > 3 {
			feat += "/more-than-3-field-lines"
		}
		m.Violate(pfx+"/"+w.nMode+feat, w.nDetail, mk(sl, so))
	}
}

// countRanges: the number of list elements of the field lines (top-level commas; close enough for a feature class).
func countRanges(lines []string) int {
	n := 0
	for _, l := range lines {
		n += 1 + strings.Count(l, ",")
	}
	return n
}

// runTotal drives every exported parser of the anchored file with the same bytes.
func runTotal(m *mon.M, c *Case) {
	lines := c.lines()
	offers := mon.SQ(c.Offers)
	def := string(c.Default)
	m.Eval(1)
	for _, key := range []string{"Accept", "Accept-Encoding"} {
		h := mkHeader(key, lines)
		calls := []struct {
			name string
			f    func()
		}{
			{"ParseAccept", func() { _ = header.ParseAccept(h, key) }},
			{"ParseAccept2", func() { _ = header.ParseAccept2(h, key) }},
			{"ParseList", func() { _ = header.ParseList(h, key) }},
			{"ParseValueAndParams", func() { _, _ = header.ParseValueAndParams(h, key) }},
			{"ParseTime", func() { _ = header.ParseTime(h, key) }},
		}
		for _, cl := range calls {
			if pv, st := mon.Catch(cl.f); pv != nil {
				m.Violate("panic/"+cl.name, fmt.Sprintf("%s panicked on %s=%q: %v\n%s", cl.name, key, lines, pv, st), c)
			}
			if d := headerModified(h, key, lines); d != "" {
				m.Violate("caller-header-modified/"+cl.name, cl.name+": "+d, c)
				h = mkHeader(key, lines)
			}
		}
	}
	var got string
	req := &http.Request{Method: http.MethodGet, Header: mkHeader("Accept", lines)}
	given := copyList(offers)
	if pv, st := mon.Catch(func() { got = middleware.NegotiateContentType(req, given, def) }); pv != nil {
		m.Violate("panic/NegotiateContentType", fmt.Sprintf("panic on %q: %v\n%s", lines, pv, st), c)
	} else if got != def && !contains(offers, got) {
		m.Violate("not-an-offer/NegotiateContentType", fmt.Sprintf("NegotiateContentType(%q, offers=%q, default=%q) = %q", lines, offers, def, got), c)
	}
	if !sameList(given, offers) {
		m.Violate("caller-offers-modified/NegotiateContentType", fmt.Sprintf("NegotiateContentType(%q, offers, default=%q): offers %q handed in, %q afterwards", lines, def, offers, given), c)
	}
	cod := []string{"gzip", "deflate", "br"}
	codGiven := copyList(cod)
	req2 := &http.Request{Method: http.MethodGet, Header: mkHeader("Accept-Encoding", lines)}
	if pv, st := mon.Catch(func() { got = middleware.NegotiateContentEncoding(req2, codGiven) }); pv != nil {
		m.Violate("panic/NegotiateContentEncoding", fmt.Sprintf("panic on %q: %v\n%s", lines, pv, st), c)
	} else if got != "" && got != "identity" && !contains(cod, got) {
		m.Violate("not-an-offer/NegotiateContentEncoding", fmt.Sprintf("NegotiateContentEncoding(%q, offers=%q) = %q", lines, cod, got), c)
	}
	m.Class("total")
	// bytes that happen to be inside the grammar get the strong oracle too
	if p := parseStrict(lines, true); p.Judged {
		m.Class("total:inside-grammar")
		cc := *c
		cc.Kind = "type"
		runFunc(m, &cc)
	}
}

// ---- API handler level ----

// APIDesc is the structural description of a generated API.
type APIDesc struct {
	DefaultProduces string   `json:"default_produces"` // "" = WithoutJSONDefaults
	Global          []string `json:"global_produces,omitempty"`
	Ops             []OpDesc `json:"ops"`
	// Post: every /op<i> also has a POST operation with the same produces list, taking a body parameter
	// and consuming application/json
	Post bool `json:"post_twin,omitempty"`
}

// OpDesc is the body-less operation at /op<i> (and its POST twin, when the description has twins).
type OpDesc struct {
	Produces []string `json:"produces,omitempty"`
	// Method of the body-less operation: "" = get; "delete", "put"
	Method string `json:"method,omitempty"`
	// Success is the status code of the one success response the operation (and its twin) declares: 0 = 200; 201, 202,
	// 204. The operation's handler answers with it (without a body for 204).
	Success int `json:"success,omitempty"`
	// ErrDefault: the operation also declares a "default" (error) response
	ErrDefault bool `json:"default_response,omitempty"`
	// NoID: the operation (and its twin) declares no operationId (Swagger 2.0: optional). ID: the operationId it declares
	// instead of the generated "op<i>" - nothing makes a description keep them unique, several operations may share one
	NoID bool   `json:"no_operation_id,omitempty"`
	ID   string `json:"operation_id,omitempty"`
}

// idClass names how operation op is identified among the operations of the description: "" = by an operationId of
// its own.
func (d *APIDesc) idClass(op int) string {
	o := d.Ops[op]
	switch {
	case o.NoID:
		return "operation-without-id"
	case o.ID != "":
		for i, x := range d.Ops {
			if i != op && !x.NoID && x.ID == o.ID {
				return "operation-id-shared-with-another-operation"
			}
		}
	}
	return ""
}

// method is the (lower-case) method of the body-less operation op.
func (d *APIDesc) method(op int) string {
	if m := d.Ops[op].Method; m != "" {
		return m
	}
	return "get"
}

// success is the status code operation op declares for success.
func (d *APIDesc) success(op int) int {
	if c := d.Ops[op].Success; c != 0 {
		return c
	}
	return http.StatusOK
}

// declared is the produces list the description declares for operation op (its own, else the spec's).
func (d *APIDesc) declared(op int) []string {
	if len(d.Ops[op].Produces) > 0 {
		return d.Ops[op].Produces
	}
	return d.Global
}

func (d *APIDesc) swagger() []byte {
	paths := map[string]interface{}{}
	for i, op := range d.Ops {
		responses := func() map[string]interface{} {
			rs := map[string]interface{}{fmt.Sprint(d.success(i)): map[string]interface{}{"description": "ok"}}
			if op.ErrDefault {
				rs["default"] = map[string]interface{}{"description": "error", "schema": map[string]interface{}{"type": "string"}}
			}
			return rs
		}
		o := map[string]interface{}{
			"operationId": fmt.Sprintf("op%d", i),
			"responses":   responses(),
		}
		switch {
		case op.NoID:
			delete(o, "operationId")
		case op.ID != "":
			o["operationId"] = op.ID
		}
		if len(op.Produces) > 0 {
			o["produces"] = op.Produces
		}
		item := map[string]interface{}{d.method(i): o}
		if d.Post {
			po := map[string]interface{}{
				"operationId": fmt.Sprintf("post%d", i),
				"consumes":    []string{"application/json"},
				"parameters": []interface{}{map[string]interface{}{
					"name": "body", "in": "body", "schema": map[string]interface{}{"type": "object"},
				}},
				"responses": responses(),
			}
			if op.NoID {
				delete(po, "operationId")
			}
			if len(op.Produces) > 0 {
				po["produces"] = op.Produces
			}
			item["post"] = po
		}
		paths[fmt.Sprintf("/op%d", i)] = item
	}
	doc := map[string]interface{}{
		"swagger":  "2.0",
		"info":     map[string]interface{}{"title": "c07", "version": "1"},
		"basePath": "/",
		"paths":    paths,
	}
	if len(d.Global) > 0 {
		doc["produces"] = d.Global
	}
	b, _ := json.Marshal(doc)
	return b
}

type observation struct {
	ran      bool
	produces []string
	routed   bool
}

type built struct {
	desc *APIDesc
	doc  *loads.Document
	api  *untyped.API
	obs  *observation
	cur  *Case
	// violate, when set, receives the violations of runHandlerOn instead of the monitor (the run loop decides which
	// replayable case shows them: the operation alone on a fresh handler, or the description with the handler's history)
	violate func(sig, detail string, c *Case)
}

func (b *built) report(m *mon.M, sig, detail string, c *Case) {
	if b.violate != nil {
		b.violate(sig, detail, c)
		return
	}
	m.Violate(sig, detail, c)
}

// handle is the application's handler of every operation: it answers with the success status the operation served
// declares (no body for 204).
func (b *built) handle() (interface{}, error) {
	b.obs.ran = true
	code := http.StatusOK
	if b.cur != nil && b.cur.Op >= 0 && b.cur.Op < len(b.desc.Ops) {
		code = b.desc.success(b.cur.Op)
	}
	return middleware.ResponderFunc(func(w http.ResponseWriter, p runtime.Producer) {
		w.WriteHeader(code)
		if code != http.StatusNoContent {
			_ = p.Produce(w, "ok")
		}
	}), nil
}

// bodyBinder is the parameter binding of a generated operation with a body parameter: it decodes the
// body with the consumer BindValidRequest selected.
type bodyBinder struct{}

func (bodyBinder) BindRequest(r *http.Request, route *middleware.MatchedRoute) error {
	if runtime.HasBody(r) && route.Consumer != nil {
		defer r.Body.Close()
		var v interface{}
		if err := route.Consumer.Consume(r.Body, &v); err != nil && err != io.EOF {
			return err
		}
	}
	return nil
}

// generated serves the request the way the ServeHTTP method of a go-swagger generated operation does.
func (b *built) generated(ctx *middleware.Context, rw http.ResponseWriter, r *http.Request) {
	route, rCtx, _ := ctx.RouteInfo(r)
	if rCtx != nil {
		*r = *rCtx
	}
	if err := ctx.BindValidRequest(r, route, bodyBinder{}); err != nil {
		ctx.Respond(rw, r, route.Produces, route, err)
		return
	}
	res, _ := b.handle()
	ctx.Respond(rw, r, route.Produces, route, res)
}

func tagProducer(tag string) runtime.Producer {
	return runtime.ProducerFunc(func(w io.Writer, v interface{}) error {
		_, err := fmt.Fprintf(w, "%s|%v", tag, v)
		return err
	})
}

func build(d *APIDesc) (*built, error) {
	doc, err := loads.Analyzed(json.RawMessage(d.swagger()), "")
	if err != nil {
		return nil, err
	}
	b := &built{desc: d, doc: doc, obs: &observation{}}
	api := untyped.NewAPI(doc)
	switch d.DefaultProduces {
	case "":
		api.WithoutJSONDefaults()
	default:
		api.DefaultProduces = d.DefaultProduces
	}
	types := map[string]bool{}
	for _, t := range d.Global {
		types[accept.NormOffer(t)] = true
	}
	for _, op := range d.Ops {
		for _, t := range op.Produces {
			types[accept.NormOffer(t)] = true
		}
	}
	if d.DefaultProduces != "" {
		types[accept.NormOffer(d.DefaultProduces)] = true
	}
	for t := range types {
		api.RegisterProducer(t, tagProducer(t))
	}
	if d.Post {
		api.RegisterConsumer("application/json", runtime.JSONConsumer())
	}
	for i := range d.Ops {
		// The handler answers with a Responder: status and Content-Type are what C07 looks at, and the
		// plain-value branch of Context.Respond (producer lookup) is C08's subject.
		api.RegisterOperation(d.method(i), fmt.Sprintf("/op%d", i), runtime.OperationHandlerFunc(func(interface{}) (interface{}, error) { return b.handle() }))
		if d.Post {
			api.RegisterOperation("post", fmt.Sprintf("/op%d", i), runtime.OperationHandlerFunc(func(interface{}) (interface{}, error) { return b.handle() }))
		}
	}
	b.api = api
	return b, nil
}

// handler builds a fresh context and router (the order of MatchedRoute.Produces is fixed here). routable: the
// context is made by NewRoutableContext over a gen.GeneratedAPI whose operation handlers run the generated-server
// sequence; it serves the "generated-routable" flow only.
func (b *built) handler(routable bool) (http.Handler, *middleware.Context) {
	if routable {
		g := gen.NewGeneratedAPI(b.api)
		op := gen.GeneratedOp{
			NewBinder: func() middleware.RequestBinder { return bodyBinder{} },
			Handle: func(*http.Request, middleware.RequestBinder, interface{}) interface{} {
				res, _ := b.handle()
				return res
			},
		}
		for i := range b.desc.Ops {
			g.Operation(b.desc.method(i), fmt.Sprintf("/op%d", i), op)
			if b.desc.Post {
				g.Operation("post", fmt.Sprintf("/op%d", i), op)
			}
		}
		ctx := middleware.NewRoutableContext(b.doc, g, nil)
		g.SetContext(ctx)
		h := ctx.RoutesHandler(func(next http.Handler) http.Handler {
			return http.HandlerFunc(func(w http.ResponseWriter, r *http.Request) {
				if mr := middleware.MatchedRouteFrom(r); mr != nil {
					b.obs.routed = true
					b.obs.produces = append([]string(nil), mr.Produces...)
				}
				next.ServeHTTP(w, r)
			})
		})
		return h, ctx
	}
	ctx := middleware.NewContext(b.doc, b.api, nil)
	h := ctx.RoutesHandler(func(next http.Handler) http.Handler {
		return http.HandlerFunc(func(w http.ResponseWriter, r *http.Request) {
			if mr := middleware.MatchedRouteFrom(r); mr != nil {
				b.obs.routed = true
				b.obs.produces = append([]string(nil), mr.Produces...)
				if b.cur != nil && b.cur.Flow == "generated" {
					b.generated(ctx, w, r)
					return
				}
			}
			next.ServeHTTP(w, r)
		})
	})
	return h, ctx
}

func producesOf(ctx *middleware.Context, method string, op int) []string {
	req := httptest.NewRequest(strings.ToUpper(method), fmt.Sprintf("/op%d", op), nil)
	if mr, ok := ctx.LookupRoute(req); ok {
		return mr.Produces
	}
	return nil
}

func sameList(a, b []string) bool {
	if len(a) != len(b) {
		return false
	}
	for i := range a {
		if a[i] != b[i] {
			return false
		}
	}
	return true
}

func runHandlerOn(m *mon.M, c *Case, b *built, h http.Handler) {
	lines := c.lines()
	m.Eval(1)
	*b.obs = observation{}
	b.cur = c
	body := c.Body && b.desc.Post
	success := b.desc.success(c.Op)
	req := httptest.NewRequest(strings.ToUpper(b.desc.method(c.Op)), fmt.Sprintf("/op%d", c.Op), nil)
	if body {
		req = httptest.NewRequest(http.MethodPost, fmt.Sprintf("/op%d", c.Op), strings.NewReader(`{"a":1}`))
		req.Header.Set("Content-Type", "application/json")
	}
	if lines != nil {
		req.Header["Accept"] = copyList(lines) // the library gets its own copy
	}
	// the input feature class of the flow (part of every signature of a flow other than the plain one)
	shape := ""
	switch {
	case c.Flow == "generated-routable" && body:
		shape = "/generated-flow-on-routable-context-with-body"
	case c.Flow == "generated-routable":
		shape = "/generated-flow-on-routable-context"
	case c.Flow == "generated" && body:
		shape = "/generated-flow-with-body"
	case c.Flow == "generated":
		shape = "/generated-flow"
	case body:
		shape = "/with-body"
	}
	if shape != "" {
		m.Class("handler-shape:" + shape[1:])
	}
	// the operation's declared success response is part of the input class too: an operation that answers without
	// content (204) declares its types - and is refused with 406 - like any other
	switch {
	case success == http.StatusNoContent:
		shape += "/no-content-operation"
	case success != http.StatusOK:
		shape += "/success-status-other-than-200"
	}
	m.Class(fmt.Sprintf("handler-operation:%s-%d", b.desc.method(c.Op), success))
	declared := b.desc.declared(c.Op)
	if accept.HasOWSBeforeSemicolon(declared...) {
		shape += "/declared-type-with-ows-before-semicolon"
	}
	if len(c.Before) > 0 {
		// the case needs what the handler served before: part of the input class, with the way the operation is identified
		shape += "/after-responses-of-other-operations"
		if ic := b.desc.idClass(c.Op); ic != "" {
			shape += "/" + ic
		}
	}
	if ic := b.desc.idClass(c.Op); ic != "" {
		m.Class("handler-operation-id:" + ic)
	}
	rec := httptest.NewRecorder()
	minimal := func() *Case {
		if len(c.Before) > 0 {
			// the history names operations of the whole description
			return &Case{Kind: "handler", Absent: c.Absent, Lines: c.Lines, API: b.desc, Op: c.Op, WantOrder: b.obs.produces, Flow: c.Flow, Body: body, Earlier: c.Earlier, Before: c.Before}
		}
		d := &APIDesc{DefaultProduces: b.desc.DefaultProduces, Global: b.desc.Global, Ops: []OpDesc{b.desc.Ops[c.Op]}, Post: b.desc.Post && body}
		return &Case{Kind: "handler", Absent: c.Absent, Lines: c.Lines, API: d, Op: 0, WantOrder: b.obs.produces, Flow: c.Flow, Body: body, Earlier: c.Earlier}
	}
	if pv, st := mon.Catch(func() { h.ServeHTTP(rec, req) }); pv != nil {
		// a panic is never attributed away; when ParseAccept already fails its oracle on this header the
		// signature names the header's feature class, so that the two root causes stay apart
		sig := "handler/panic"
		if p := parseStrict(lines, true); p.Judged && p.Present {
			var specs []header.AcceptSpec
			mon.Catch(func() { specs = header.ParseAccept(req.Header, "Accept") })
			if md, _ := checkParse(specs, p.Ranges); md != "" {
				sig = "handler/panic-after-" + md + "/" + accept.Features(lines, p.Ranges)[0]
			}
		}
		b.report(m, sig+shape, fmt.Sprintf("API handler panicked on Accept=%q (produces=%q, default=%q): %v\n%s", lines, b.obs.produces, b.desc.DefaultProduces, pv, st), minimal())
		return
	}
	obs := *b.obs
	status := rec.Code
	ct := rec.Header().Get("Content-Type")
	m.Class(fmt.Sprintf("handler:status-%d", status))
	if !obs.routed {
		// every request of this level goes to a path and method the description declares: the router must find the
		// operation, and a middleware installed through the Builder must see its matched route
		m.Class("handler:not-routed")
		sig := "handler/builder-did-not-see-matched-route"
		if status == http.StatusNotFound || status == http.StatusMethodNotAllowed {
			sig = "handler/declared-operation-not-routed"
		}
		b.report(m, sig+shape, fmt.Sprintf("%s %s is declared, Accept=%q: status %d, handler ran=%v, and the middleware installed through the Builder found no MatchedRoute in the request it was handed", req.Method, req.URL.Path, lines, status, obs.ran), minimal())
		return
	}
	m.SetAdd("observed-produces-orders", strings.Join(obs.produces, " | "))
	if obs.ran != (status == success) || (!obs.ran && status != http.StatusNotAcceptable) {
		b.report(m, "handler/status-and-handler-run-disagree"+shape, fmt.Sprintf("Accept=%q produces=%q: status %d, handler ran=%v", lines, obs.produces, status, obs.ran), minimal())
		return
	}
	// the operation's offers are what it DECLARES plus the API default; the router's list must be that set
	if f, det := accept.OfferSetDiff(obs.produces, declared, b.desc.DefaultProduces); f != "" {
		b.report(m, "handler/offers-differ-from-declaration/"+f, "MatchedRoute.Produces: "+det, minimal())
	}
	if !sameList(req.Header["Accept"], lines) {
		b.report(m, "handler/caller-header-modified", fmt.Sprintf("Accept lines %q sent, %q in the request afterwards", lines, req.Header["Accept"]), minimal())
	}
	offers := accept.StatementOffers(obs.produces, declared, b.desc.DefaultProduces)
	p, mixed, why := judgedParse(lines, offers, true)
	if why != "" {
		m.Class("handler:not-judged/" + why)
		return
	}
	if mixed {
		m.Class("handler:judged/mixed-case")
		shape += "/mixed-case-declared-type"
	}
	if nr := countRanges(lines); nr > 8 {
		m.Class("handler:judged/more-than-8-ranges")
	}
	if qAbove1(p.Ranges) {
		m.Class("handler:judged/q-above-1")
		shape += "/qvalue-above-1"
	}
	if qc := quotedClass(p.Ranges); qc != "" && !mixed {
		m.Class("handler:judged/" + qc)
		shape += "/" + qc
	}
	pFailed := false
	if p.Present {
		var specs []header.AcceptSpec
		mon.Catch(func() { specs = header.ParseAccept(mkHeader("Accept", lines), "Accept") })
		md, _ := checkParseM(specs, p.Ranges, mixed)
		pFailed = md != ""
	}
	gate := accept.Select(p.Present, p.Ranges, offers, true)
	if p.Present && nontrivial(p.Ranges, offers, true) {
		m.NT("handler|" + strings.Join(lines, "\x00") + "|" + strings.Join(offers, "\x00") + "|" + b.desc.DefaultProduces + shape)
	}
	mode, detail := "", ""
	if gate.None {
		m.Class("handler:expect-406")
		if success == http.StatusNoContent {
			m.Class("handler:expect-406/no-content-operation")
		}
		switch {
		case obs.ran:
			mode = "handler-ran-although-nothing-acceptable"
		case status != http.StatusNotAcceptable:
			mode = "no-406-although-nothing-acceptable"
		}
		detail = fmt.Sprintf("Accept=%q admits none of the declared types %q (default %q): expected 406 without running the handler; got status %d, handler ran=%v, Content-Type %q", lines, declared, b.desc.DefaultProduces, status, obs.ran, ct)
	} else {
		m.Class("handler:expect-200")
		want := gate // the statement's list: declared produces without the default (order as observed), default last
		switch {
		case status == http.StatusNotAcceptable || !obs.ran:
			mode = "spurious-406"
			detail = fmt.Sprintf("Accept=%q admits %q of the declared types %q (default %q): got status %d, handler ran=%v (MatchedRoute.Produces %q)", lines, gate.Offer, declared, b.desc.DefaultProduces, status, obs.ran, obs.produces)
		case ct == "" && success == http.StatusNoContent:
			// a response without content need not name a type; one that does names the chosen one
			m.Class("handler:no-content-without-content-type")
		case ct != want.Offer:
			mode = "wrong-content-type"
			detail = fmt.Sprintf("Accept=%q, declared produces=%q (observed order %q), default=%q: Content-Type %q, statement gives %q", lines, declared, obs.produces, b.desc.DefaultProduces, ct, want.Offer)
		}
	}
	if mode == "" {
		return
	}
	if pFailed {
		m.Class("handler:mismatch-attributed-to-parse-violation")
		return
	}
	b.report(m, "handler/"+mode+shape, detail, minimal())
}

func runHandlerReplay(m *mon.M, c *Case) {
	if c.API == nil || c.Op < 0 || c.Op >= len(c.API.Ops) {
		m.Violate("bad-replay-case", "handler case without api/op", nil)
		return
	}
	b, err := build(c.API)
	if err != nil {
		m.Class("handler:spec-rejected")
		return
	}
	var h http.Handler
	for i := 0; i < 400; i++ {
		var ctx *middleware.Context
		h, ctx = b.handler(c.Flow == "generated-routable")
		if len(c.WantOrder) == 0 || sameList(producesOf(ctx, c.API.method(c.Op), c.Op), c.WantOrder) {
			break
		}
	}
	if len(c.Before) > 0 {
		scratch := mon.New("C07", "quick", 0, 0, 1, "")
		scratch.SetReplayMode()
		for _, p := range c.Before {
			if p.Op < 0 || p.Op >= len(c.API.Ops) || (p.Flow == "generated-routable") != (c.Flow == "generated-routable") {
				continue // not a request this handler can have served
			}
			e := Case{Kind: "handler", Absent: p.Absent, Lines: p.Lines, API: c.API, Op: p.Op, Flow: p.Flow, Body: p.Body}
			runHandlerOn(scratch, &e, b, h)
		}
	}
	if len(c.Earlier) > 0 {
		scratch := mon.New("C07", "quick", 0, 0, 1, "")
		scratch.SetReplayMode()
		for _, el := range c.Earlier {
			e := *c
			e.Earlier, e.Before, e.Lines, e.Absent = nil, nil, el, false
			runHandlerOn(scratch, &e, b, h)
		}
	}
	runHandlerOn(m, c, b, h)
}

// ---- generation ----

// genAPI draws a description. ro is a PRNG of its own for the operations' methods and declared success responses
// (the draws of r are what they were without them).
// rid is a PRNG of its own for the operationIds: one description in two keeps the generated "op<i>" for every
// operation; in the others all operations declare none, all share one, or each draws (none / a shared one / its own).
func genAPI(r, ro, rid *rand.Rand) *APIDesc {
	d := &APIDesc{}
	switch k := r.Intn(20); {
	case k < 11:
		d.DefaultProduces = "application/json"
	case k < 17:
		d.DefaultProduces = accept.Types[r.Intn(len(accept.Types))]
	default:
		d.DefaultProduces = ""
	}
	if d.DefaultProduces != "" && r.Intn(10) == 0 {
		// an API default that carries parameters
		if r.Intn(3) == 0 {
			d.DefaultProduces += accept.OWSOfferParams[r.Intn(len(accept.OWSOfferParams))]
		} else {
			d.DefaultProduces += accept.OfferParams[r.Intn(len(accept.OfferParams))]
		}
	}
	// one description in twelve declares types spelled with upper-case letters
	vocabulary := accept.Types
	if r.Intn(12) == 0 {
		vocabulary = append(append([]string{}, MixedTypes[:2+r.Intn(len(MixedTypes)-1)]...), accept.Types[:4]...)
		// On an API without default producer, serving a declared type spelled with upper-case letters panicked "can't find a
		// producer" after a correct negotiation (untyped.API.RegisterProducer lower-cases its key, ProducersFor looked the
		// declared spelling up verbatim; with a default producer Respond silently fell back to it). Repaired in the library
		// (registry lookups fold case) and pinned; such descriptions are generated with and without a default producer.
	}
	list := func() []string {
		n := 1 + r.Intn(4)
		perm := r.Perm(len(vocabulary))
		var out []string
		for i := 0; i < n; i++ {
			t := vocabulary[perm[i]]
			if r.Intn(6) == 0 {
				t += accept.OfferParams[r.Intn(3)]
			} else if accept.JudgeOWSBeforeSemicolon && r.Intn(16) == 0 {
				t += accept.OWSOfferParams[r.Intn(len(accept.OWSOfferParams))]
			}
			out = append(out, t)
		}
		return out
	}
	if r.Intn(3) == 0 {
		d.Global = list()
	}
	nops := 1 + r.Intn(4)
	for i := 0; i < nops; i++ {
		var op OpDesc
		if len(d.Global) == 0 || r.Intn(3) > 0 {
			op.Produces = list()
		}
		if ro != nil {
			// the declared success response: 200 for two operations in three, else 204 (the typical DELETE / PUT), 201, 202
			switch k := ro.Intn(12); {
			case k < 2:
				op.Success = http.StatusNoContent
			case k == 2:
				op.Success = http.StatusCreated
			case k == 3:
				op.Success = http.StatusAccepted
			}
			switch k := ro.Intn(8); {
			case k == 0:
				op.Method = "put"
			case k < 3:
				op.Method = "delete"
				if ro.Intn(2) == 0 {
					op.Success = http.StatusNoContent
				}
			}
			op.ErrDefault = ro.Intn(3) == 0
		}
		d.Ops = append(d.Ops, op)
	}
	d.Post = r.Intn(2) == 0
	if rid != nil {
		switch rid.Intn(6) {
		case 0:
			for i := range d.Ops {
				d.Ops[i].NoID = true
			}
		case 1:
			for i := range d.Ops {
				d.Ops[i].ID = "operation"
			}
		case 2:
			for i := range d.Ops {
				switch rid.Intn(3) {
				case 0:
					d.Ops[i].NoID = true
				case 1:
					d.Ops[i].ID = "operation"
				}
			}
		}
	}
	return d
}

// genLines draws the field lines of one header. rq is a PRNG of its own for the q-values raised above 1 (one header
// in raiseEvery): the draws of r, and with them every header that is not raised, are what they were without it.
// rs is a PRNG of its own for the quoted parameter values with quoted-pairs (one header in quoteEvery), hung on the
// ranges in front of and behind the weight.
func genLines(r, rq, rs *rand.Rand, types []string) (lines []string, absent bool, flavour string) {
	if r.Intn(14) == 0 {
		return nil, true, "absent"
	}
	raised := ""
	raise := func(h accept.Header) {
		if rq != nil && rq.Intn(raiseEvery) == 0 && raiseQ(rq, h) {
			raised = "+q-above-1"
		}
		if rs != nil && rs.Intn(quoteEvery) == 0 && quotePairs(rs, h) {
			raised += "+quoted-pairs"
		}
	}
	switch r.Intn(100) {
	case 0: // "any number of ranges"
		l := genManyRanges(r, types, false, raise)
		return l, false, "many-ranges" + raised
	case 1: // "multiple header lines"
		l := genManyRanges(r, types, true, raise)
		return l, false, "many-field-lines" + raised
	}
	fl := accept.PickFlavour(r)
	h := accept.GenHeader(r, fl, types)
	raise(h)
	return accept.WithEmptyElements(r, h.Render(accept.OWS(r))), false, accept.FlavourNames[fl] + raised
}

func run(m *mon.M) {
	// function level, G1
	r := m.Rand("g1")
	rq := m.Rand("q-above-1")
	rs := m.Rand("quoted-pairs")
	n := m.N(60000, 1500000)
	for i := 0; i < n; i++ {
		var c *Case
		if i%25 == 7 || i%50 == 9 {
			// offers spelled with upper-case letters, named verbatim by the header
			if i%50 == 9 {
				lines, offers := genMixedEnc(r)
				c = &Case{Kind: "enc", Lines: mon.QS(lines), Offers: mon.QS(offers)}
			} else {
				lines, offers := genMixedType(r)
				c = &Case{Kind: "type", Lines: mon.QS(lines), Offers: mon.QS(offers), Default: mon.Q(accept.GenDefault(r))}
			}
			m.Class("flavour:mixed-case-offers")
		} else if i%5 == 4 {
			long := r.Intn(4) == 0
			var lines []string
			absent := r.Intn(20) == 0
			fl := "enc"
			if !absent {
				h := accept.GenCodingHeader(r, long)
				if rq.Intn(raiseEvery) == 0 && raiseQ(rq, h) {
					fl += "+q-above-1"
				}
				lines = accept.WithEmptyElements(r, h.Render(accept.OWS(r)))
			}
			c = &Case{Kind: "enc", Absent: absent, Lines: mon.QS(lines), Offers: mon.QS(accept.GenCodingOffers(r))}
			m.Class("flavour:" + fl)
		} else {
			lines, absent, fl := genLines(r, rq, rs, accept.Types)
			c = &Case{Kind: "type", Absent: absent, Lines: mon.QS(lines), Offers: mon.QS(accept.GenOffers(r)), Default: mon.Q(accept.GenDefault(r))}
			m.Class("flavour:" + fl)
		}
		m.Begin(c)
		runFunc(m, c)
		if m.WantSample() {
			m.Sample(c)
		}
	}
	// G2: arbitrary bytes and mutations of well-formed values
	r2 := m.Rand("g2")
	n2 := m.N(10000, 250000)
	for i := 0; i < n2; i++ {
		var lines []string
		nl := 1
		if r2.Intn(8) == 0 {
			nl = 2
		}
		for k := 0; k < nl; k++ {
			if r2.Intn(2) == 0 {
				lines = append(lines, accept.GenBytes(r2))
			} else {
				l, _, _ := genLines(r2, rq, rs, accept.Types)
				s := strings.Join(l, ",")
				for e := 1 + r2.Intn(3); e > 0; e-- {
					s = accept.Mutate(r2, s)
				}
				lines = append(lines, s)
			}
		}
		c := &Case{Kind: "total", Lines: mon.QS(lines), Offers: mon.QS(accept.GenOffers(r2)), Default: mon.Q(accept.GenDefault(r2))}
		m.Begin(c)
		runTotal(m, c)
	}
	// API handler level
	r3 := m.Rand("handler")
	ro := m.Rand("handler-operations")
	rid := m.Rand("handler-operation-ids")
	hr := newHandlerReporter(m)
	napi := m.N(60, 1000)
	nreq := 30
	for a := 0; a < napi; a++ {
		d := genAPI(r3, ro, rid)
		m.Begin(map[string]interface{}{"kind": "handler-api", "api": d})
		b, err := build(d)
		if err != nil {
			m.Class("handler:spec-rejected")
			continue
		}
		var hs, rhs []http.Handler
		for k := 0; k < 3; k++ {
			h, _ := b.handler(false)
			hs = append(hs, h)
		}
		for k := 0; k < 2; k++ {
			h, _ := b.handler(true)
			rhs = append(rhs, h)
		}
		// what each handler instance served so far (a handler is one Context: the history of the requests it is sent)
		served := map[string][]Prior{}
		serve := func(c *Case, h http.Handler, hk string) {
			hr.run(c, b, h, served[hk])
			served[hk] = append(served[hk], Prior{Op: c.Op, Absent: c.Absent, Lines: c.Lines, Flow: c.Flow, Body: c.Body && d.Post})
		}
		for q := 0; q < nreq; q++ {
			op := r3.Intn(len(d.Ops))
			// bias the range vocabulary towards what the operation produces
			types := accept.Types
			if r3.Intn(2) == 0 {
				src := d.Ops[op].Produces
				if len(src) == 0 {
					src = d.Global
				}
				var t []string
				for _, s := range src {
					t = append(t, accept.NormOffer(s))
				}
				sort.Strings(t)
				t = append(t, accept.Types[r3.Intn(len(accept.Types))])
				types = t
			}
			lines, absent, fl := genLines(r3, rq, rs, types)
			c := &Case{Kind: "handler", Absent: absent, Lines: mon.QS(lines), API: d, Op: op}
			h, hk := hs[q%len(hs)], fmt.Sprint("plain-", q%len(hs))
			switch r3.Intn(6) {
			case 0:
				c.Flow = "generated"
			case 1, 2:
				// the constructor a generated server uses
				c.Flow = "generated-routable"
				h, hk = rhs[q%len(rhs)], fmt.Sprint("routable-", q%len(rhs))
			}
			c.Body = d.Post && r3.Intn(2) == 0
			m.Class("handler-flavour:" + fl)
			m.Begin(c)
			serve(c, h, hk)
			if !absent && len(lines) > 1 {
				// follow-ups on the same handler that share the first field line with the request just served
				// but are to be negotiated differently
				other, _, _ := genLines(r3, rq, rs, types)
				for _, fl := range [][]string{lines[:1], append([]string{lines[0]}, other...)} {
					f := &Case{Kind: "handler", Lines: mon.QS(fl), API: d, Op: op, Flow: c.Flow, Body: c.Body, Earlier: [][]mon.Q{mon.QS(lines)}}
					m.Class("handler-flavour:follow-up-sharing-first-line")
					m.Begin(f)
					serve(f, h, hk)
				}
			}
		}
	}
}

func replay(m *mon.M, raw json.RawMessage) {
	var c Case
	if err := json.Unmarshal(raw, &c); err != nil {
		m.Violate("bad-replay-case", err.Error(), nil)
		return
	}
	switch c.Kind {
	case "type", "enc":
		runFunc(m, &c)
	case "total":
		runTotal(m, &c)
	case "handler":
		runHandlerReplay(m, &c)
	default:
		m.Violate("bad-replay-case", "unknown kind "+c.Kind, nil)
	}
}
