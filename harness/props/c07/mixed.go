package c07

import (
	"math/rand"
	"strings"

	"verif/props/c07/accept"
)

// ---- offers spelled with upper-case letters ----
//
// The strong oracle of package accept is defined on lower-case ranges and offers. Offer lists are not limited
// to lower case ("all offer lists"): IANA registers application/vnd.ms-excel.sheet.macroEnabled.12, vendors
// write application/vnd.Acme.v2+json, a description may say Text/Plain. The statement says that the offer
// matched by the best acceptable range is chosen; whether a range and an offer that differ in letter case
// only "match" is not said (RFC 7231 says yes, a verbatim comparison says no), but a range that is
// byte-for-byte the offer's type certainly matches it. So a header/offer-list pair with upper-case letters is
// judged exactly when the two readings agree on every (range, offer) pair; the reference is then the same
// selection rule (accept.Select), fed by the small parser below.

// MixedTypes / MixedCodings: offers with upper-case letters; none of them is a case variant of a lower-case
// vocabulary entry.
var MixedTypes = []string{"application/vnd.ms-excel.sheet.macroEnabled.12", "application/vnd.Acme.v2+json", "Text/X-Markdown", "Image/SVG+xml", "application/X-Yaml"}
var MixedCodings = []string{"X-Snappy", "Zstd", "x-LZMA"}

func mixedToken(s string) bool {
	if s == "" {
		return false
	}
	for i := 0; i < len(s); i++ {
		b := s[i]
		if !(b >= 'a' && b <= 'z' || b >= 'A' && b <= 'Z' || b >= '0' && b <= '9' || b == '.' || b == '+' || b == '-' || b == '_') {
			return false
		}
	}
	return true
}

func mixedRange(t string, media bool) bool {
	if !media {
		return t == "*" || mixedToken(t)
	}
	parts := strings.Split(t, "/")
	switch {
	case len(parts) != 2:
		return false
	case parts[0] == "*":
		return parts[1] == "*"
	case parts[1] == "*":
		return mixedToken(parts[0])
	}
	return mixedToken(parts[0]) && mixedToken(parts[1])
}

// parseMixed reads field lines of the grammar
//
//	line    = element *( OWS "," OWS element )
//	element = range [ OWS ";" OWS "q=" qvalue ]          (qvalue with at most 5 fraction digits)
//
// where a range is made of tokens over letters of both cases, digits and ". + - _". Anything else (other
// parameters, quoted strings, empty elements, longer q-values) is not this grammar's business: ok = false.
func parseMixed(lines []string, media bool) (ranges []accept.Range, ok bool) {
	for _, l := range lines {
		if l == "" || l[0] == ' ' || l[0] == '\t' || l[len(l)-1] == ' ' || l[len(l)-1] == '\t' {
			return nil, false
		}
		for _, el := range strings.Split(l, ",") {
			el = strings.Trim(el, " \t")
			rg := accept.Range{Type: el}
			if i := strings.IndexByte(el, ';'); i >= 0 {
				rg.Type = strings.TrimRight(el[:i], " \t")
				rest := strings.TrimLeft(el[i+1:], " \t")
				if !strings.HasPrefix(rest, "q=") {
					return nil, false
				}
				rg.HasQ, rg.QText = true, rest[2:]
				if !accept.ValidQ(rg.QText) || accept.FractionDigits(rg.QText) > 5 {
					return nil, false
				}
			}
			if !mixedRange(rg.Type, media) {
				return nil, false
			}
			ranges = append(ranges, rg)
		}
	}
	if lines != nil && len(ranges) == 0 {
		return nil, false
	}
	return ranges, true
}

func mixedOffers(offers []string, media bool) bool {
	for _, o := range offers {
		n := accept.NormOffer(o)
		if !media {
			if n != o || !mixedToken(n) {
				return false
			}
			continue
		}
		parts := strings.Split(n, "/")
		if len(parts) != 2 || !mixedToken(parts[0]) || !mixedToken(parts[1]) {
			return false
		}
	}
	return true
}

// caseUnambiguous: every (range, offer) pair matches verbatim exactly when it matches with letter case ignored.
func caseUnambiguous(ranges []accept.Range, offers []string, media bool) bool {
	for i := range ranges {
		lr := strings.ToLower(ranges[i].Type)
		for _, o := range offers {
			if (accept.Specificity(ranges[i].Type, o, media) >= 0) != (accept.Specificity(lr, strings.ToLower(o), media) >= 0) {
				return false
			}
		}
	}
	return true
}

// judgedParse is the strict parse of the header when header and offers are inside the lower-case grammar, else
// the mixed-case reading when that applies; why != "" = not judged.
func judgedParse(lines, offers []string, media bool) (p accept.Parsed, mixed bool, why string) {
	p = parseStrict(lines, media)
	switch {
	case !p.Judged:
		why = p.Why
	case !accept.CleanOffers(offers, media):
		why = "offers-outside-grammar"
	default:
		return p, false, ""
	}
	if why != "upper-case-range" && why != "offers-outside-grammar" {
		return p, false, why
	}
	rs, ok := parseMixed(lines, media)
	if !ok || !mixedOffers(offers, media) {
		return p, false, why
	}
	if !caseUnambiguous(rs, offers, media) {
		return p, false, "mixed-case:range-and-offer-differ-in-case-only"
	}
	return accept.Parsed{Present: lines != nil, Judged: true, Ranges: rs}, true, ""
}

// foldRanges: ParseAccept may hand a range out in any letter case (media types and codings are
// case-insensitive); what the selection does with an offer spelled in upper case is judged on the choice.
func foldRanges(ranges []accept.Range) []accept.Range {
	out := make([]accept.Range, len(ranges))
	for i, rg := range ranges {
		rg.Type = strings.ToLower(rg.Type)
		out[i] = rg
	}
	return out
}

// shrinkMixed reduces a failing mixed-case pair: offers, then ranges (one element at a time), rendered on one line.
func shrinkMixed(lines []string, offers []string, media bool, fails func(lines []string, offers []string) bool) ([]string, []string) {
	dropOffers := func(ls []string) {
		for i := 0; i < len(offers) && len(offers) > 1; {
			cand := append(append([]string{}, offers[:i]...), offers[i+1:]...)
			if fails(ls, cand) {
				offers = cand
			} else {
				i++
			}
		}
	}
	dropOffers(lines)
	rs, ok := parseMixed(lines, media)
	if !ok || len(rs) == 0 {
		return lines, offers
	}
	render := func(rs []accept.Range) []string { return accept.Header{rs}.Render(nil) }
	if !fails(render(rs), offers) {
		return lines, offers
	}
	for i := 0; i < len(rs) && len(rs) > 1; {
		cand := append(append([]accept.Range{}, rs[:i]...), rs[i+1:]...)
		if fails(render(cand), offers) {
			rs = cand
		} else {
			i++
		}
	}
	out := render(rs)
	dropOffers(out)
	return out, offers
}

// ---- generation ----

var mixedQ = []string{"", "", "", "1", "0.9", "0.8", "0.5", "0.5", "0.3", "0.1", "0.01", "0", "0.0"}

func typePart(t string) string {
	if i := strings.IndexByte(t, '/'); i >= 0 {
		return t[:i]
	}
	return t
}

func renderMixed(r *rand.Rand, rs []accept.Range) []string {
	h := accept.Header{rs}
	if len(rs) > 1 && r.Intn(6) == 0 {
		cut := 1 + r.Intn(len(rs)-1)
		h = accept.Header{rs[:cut], rs[cut:]}
	}
	return h.Render(accept.OWS(r))
}

// genMixedType: an offer list in which one to three offers are spelled with upper-case letters, and a header whose
// ranges name offers verbatim (exactly, or through the verbatim "type/*"), next to "*/*" and lower-case competitors.
func genMixedType(r *rand.Rand) (lines []string, offers []string) {
	pm := r.Perm(len(MixedTypes))
	for i := 0; i < 1+r.Intn(3); i++ {
		o := MixedTypes[pm[i]]
		if r.Intn(4) == 0 {
			o += accept.OfferParams[r.Intn(3)]
		}
		offers = append(offers, o)
	}
	pl := r.Perm(len(accept.Types))
	for i := 0; i < r.Intn(4); i++ {
		offers = append(offers, accept.Types[pl[i]])
	}
	r.Shuffle(len(offers), func(i, j int) { offers[i], offers[j] = offers[j], offers[i] })
	var rs []accept.Range
	for i := 0; i < 1+r.Intn(4); i++ {
		o := accept.NormOffer(offers[r.Intn(len(offers))])
		var rg accept.Range
		switch k := r.Intn(20); {
		case k < 11:
			rg.Type = o
		case k < 14:
			rg.Type = typePart(o) + "/*"
		case k < 16:
			rg.Type = "*/*"
		case k < 18:
			rg.Type = MixedTypes[r.Intn(len(MixedTypes))]
		default:
			rg.Type = accept.Types[r.Intn(len(accept.Types))]
		}
		if q := mixedQ[r.Intn(len(mixedQ))]; q != "" {
			rg.HasQ, rg.QText = true, q
		}
		rs = append(rs, rg)
	}
	return renderMixed(r, rs), offers
}

// genMixedEnc: the same for content codings.
func genMixedEnc(r *rand.Rand) (lines []string, offers []string) {
	pm := r.Perm(len(MixedCodings))
	for i := 0; i < 1+r.Intn(2); i++ {
		offers = append(offers, MixedCodings[pm[i]])
	}
	pl := r.Perm(len(accept.Codings))
	for i := 0; i < 1+r.Intn(3); i++ {
		offers = append(offers, accept.Codings[pl[i]])
	}
	r.Shuffle(len(offers), func(i, j int) { offers[i], offers[j] = offers[j], offers[i] })
	var rs []accept.Range
	for i := 0; i < 1+r.Intn(4); i++ {
		var rg accept.Range
		switch k := r.Intn(10); {
		case k < 7:
			rg.Type = offers[r.Intn(len(offers))]
		case k < 8:
			rg.Type = "*"
		default:
			rg.Type = MixedCodings[r.Intn(len(MixedCodings))]
		}
		if q := mixedQ[r.Intn(len(mixedQ))]; q != "" {
			rg.HasQ, rg.QText = true, q
		}
		rs = append(rs, rg)
	}
	return renderMixed(r, rs), offers
}

// ---- "any number of ranges", "multiple header lines" ----

var foreignTypes = []string{"audio/ogg", "video/mp4", "application/pdf", "font/woff2", "model/obj", "audio/*", "video/*"}

var manyCounts = []int{9, 17, 33, 65}

// genManyRanges builds a header of 9, 17, 33, 65 or 257 ranges (on one line, or spread over 5-40 field lines when
// spread is set; then the count may also be small). In half of them every range but the last names a type nobody
// offers, and the last one is the only acceptable range: the place where a client writes its "*/*;q=0.1" fallback.
func genManyRanges(r *rand.Rand, types []string, spread bool, raise func(accept.Header)) []string {
	n := manyCounts[r.Intn(len(manyCounts))]
	if r.Intn(50) == 0 {
		n = 257 // rare: the reference compares the q-values pairwise
	}
	nl := 1
	if spread {
		nl = 5 + r.Intn(36)
		if r.Intn(2) == 0 {
			n = nl + r.Intn(2*nl)
		}
		if n < nl {
			n = nl
		}
	}
	// flavours without long q tails: the q-values of independently generated pieces stay on the 1e-5 grid
	flavours := []accept.Flavour{accept.Plain, accept.Plain, accept.ParamsPre, accept.ParamsPost, accept.Quoted, accept.QSuffixName}
	fl := flavours[r.Intn(len(flavours))]
	onlyLast := r.Intn(2) == 0
	voc := types
	if onlyLast {
		voc = foreignTypes
	}
	var rs []accept.Range
	for len(rs) < n {
		rs = append(rs, accept.GenHeader(r, fl, voc).Flat()...)
	}
	rs = rs[:n]
	if onlyLast {
		for i := range rs[:n-1] {
			ok := false
			for _, f := range foreignTypes {
				if rs[i].Type == f {
					ok = true
				}
			}
			if !ok { // a wildcard or sibling range the generator mixed in
				rs[i].Type = foreignTypes[r.Intn(len(foreignTypes))]
			}
		}
		last := accept.Range{Type: "*/*"}
		if r.Intn(2) == 0 {
			last.Type = types[r.Intn(len(types))]
		}
		if r.Intn(3) > 0 {
			last.HasQ, last.QText = true, []string{"0.1", "0.5", "1", "0.001"}[r.Intn(4)]
		}
		rs[n-1] = last
	}
	h := accept.Header{rs}
	if nl > 1 {
		// nl non-empty lines
		cuts := r.Perm(n - 1)[:nl-1]
		isCut := map[int]bool{}
		for _, c := range cuts {
			isCut[c+1] = true
		}
		h = nil
		st := 0
		for i := 1; i <= n; i++ {
			if i == n || isCut[i] {
				h = append(h, rs[st:i])
				st = i
			}
		}
	}
	if raise != nil {
		raise(h) // q-values above 1 (the ranges are shared with rs: rewritten in place)
	}
	return h.Render(accept.OWS(r))
}

// preShrinkLong cuts a failing header of many ranges down in halving chunks before the structural shrinker (which
// clones the whole header once per candidate) takes over. It works on the canonical one-line rendering; when that
// no longer fails (the failure needs the line structure or the spelling) the lines are returned as they are.
func preShrinkLong(lines []string, offers []string, media bool, fails func(lines []string, offers []string) bool) []string {
	if countRanges(lines) <= 12 {
		return lines
	}
	p := parseStrict(lines, media)
	if !p.Judged || len(p.Ranges) <= 12 {
		return lines
	}
	rs := p.Ranges
	render := func(rs []accept.Range) []string { return accept.Header{rs}.Render(nil) }
	if !fails(render(rs), offers) {
		return lines
	}
	for chunk := len(rs) / 2; chunk >= 1; chunk /= 2 {
		for i := 0; i+chunk <= len(rs) && len(rs) > chunk; {
			cand := append(append([]accept.Range{}, rs[:i]...), rs[i+chunk:]...)
			if fails(render(cand), offers) {
				rs = cand
			} else {
				i += chunk
			}
		}
	}
	return render(rs)
}
