// Package accept is the reference side of the Accept-negotiation monitors (C07, reused by C08):
// a strict RFC 7231 §5.3 grammar parser for Accept / Accept-Encoding field values, exact decimal
// q-values (math/big), the selection rule of the C07 statement, a structural header generator and
// a structural shrinker. Nothing in here looks at the code under test.
package accept

import (
	"fmt"
	"math"
	"math/big"
	"strings"
)

// Param is one ";name=value" parameter of a range.
type Param struct {
	Name   string `json:"n"`
	Value  string `json:"v,omitempty"`      // raw text (between the quotes when Quoted)
	Quoted bool   `json:"quoted,omitempty"` // value was written as a quoted-string
	Bare   bool   `json:"bare,omitempty"`   // accept-ext without "=value"
}

// Range is one element of the list: a media range (or a content-coding) with its parameters.
type Range struct {
	Type   string  `json:"type"`
	Before []Param `json:"before,omitempty"` // media-range parameters (written before q)
	HasQ   bool    `json:"has_q,omitempty"`
	QText  string  `json:"q,omitempty"`     // the qvalue as written
	After  []Param `json:"after,omitempty"` // accept-ext parameters (written after q)
}

// Header is a list of field lines, each a list of ranges. nil = header absent.
type Header [][]Range

// Flat returns all ranges in order.
func (h Header) Flat() []Range {
	var out []Range
	for _, l := range h {
		out = append(out, l...)
	}
	return out
}

// Parsed is the result of the strict parser.
type Parsed struct {
	Present bool // at least one field line was given
	Lines   Header
	Ranges  []Range
	// Judged is false when the text is outside the grammar on which the strong oracle is defined;
	// Why names the first reason.
	Judged bool
	Why    string
	// Empties counts the empty list elements that were skipped (RFC 7230 section 7: "a recipient MUST parse and
	// ignore a reasonable number of empty list elements"; they are no ranges)
	Empties int
}

// JudgeEmptyElements: empty list elements (",a/b", "a/b,,c/d", "a/b, ,c/d", "a/b,") are inside the judged
// grammar: the strict parser skips them (RFC 7230 section 7) and the generators insert them. (The library
// used to drop the rest of a field line at the first empty element: repaired, see DESIGN 9.3.)
var JudgeEmptyElements = true

func isOWS(b byte) bool { return b == ' ' || b == '\t' }

// tchar of RFC 7230.
func isTchar(b byte) bool {
	switch {
	case b >= 'a' && b <= 'z', b >= 'A' && b <= 'Z', b >= '0' && b <= '9':
		return true
	}
	return strings.IndexByte("!#$%&'*+-.^_`|~", b) >= 0
}

// plainToken: the token alphabet the strong oracle is defined on (lower-case names as written in
// IANA registrations). Upper-case letters and the exotic tchars are legal tokens but not judged.
func plainToken(s string) bool {
	if s == "" {
		return false
	}
	for i := 0; i < len(s); i++ {
		b := s[i]
		if !(b >= 'a' && b <= 'z' || b >= '0' && b <= '9' || b == '.' || b == '+' || b == '-' || b == '_') {
			return false
		}
	}
	return true
}

func hasUpper(s string) bool {
	for i := 0; i < len(s); i++ {
		if s[i] >= 'A' && s[i] <= 'Z' {
			return true
		}
	}
	return false
}

// ValidQ reports whether s is a qvalue of the (digit-count extended) grammar:
// "0" [ "." *DIGIT ] / "1" [ "." *"0" ].
func ValidQ(s string) bool {
	if s == "" || (s[0] != '0' && s[0] != '1') {
		return false
	}
	if len(s) == 1 {
		return true
	}
	if s[1] != '.' {
		return false
	}
	for i := 2; i < len(s); i++ {
		if s[i] < '0' || s[i] > '9' {
			return false
		}
		if s[0] == '1' && s[i] != '0' {
			return false
		}
	}
	return true
}

// FractionDigits is the number of digits after the decimal point of a qvalue text.
func FractionDigits(q string) int {
	if i := strings.IndexByte(q, '.'); i >= 0 {
		return len(q) - i - 1
	}
	return 0
}

// ExactQ is the number a valid qvalue text denotes.
func ExactQ(s string) *big.Rat {
	r, ok := new(big.Rat).SetString(strings.TrimSuffix(s, "."))
	if !ok {
		return new(big.Rat)
	}
	return r
}

// Q is the exact quality of the range (1 when no weight is written).
func (rg *Range) Q() *big.Rat {
	if !rg.HasQ {
		return big.NewRat(1, 1)
	}
	return ExactQ(rg.QText)
}

type parser struct {
	s     string
	pos   int
	media bool
	why   string
}

func (p *parser) fail(why string) bool {
	if p.why == "" {
		p.why = why
	}
	return false
}

func (p *parser) ows() {
	for p.pos < len(p.s) && isOWS(p.s[p.pos]) {
		p.pos++
	}
}

func (p *parser) token() string {
	st := p.pos
	for p.pos < len(p.s) && isTchar(p.s[p.pos]) {
		p.pos++
	}
	return p.s[st:p.pos]
}

// quoted parses a quoted-string at pos (which holds the opening quote) and returns the raw content.
func (p *parser) quoted() (string, bool) {
	p.pos++
	st := p.pos
	for p.pos < len(p.s) {
		b := p.s[p.pos]
		switch {
		case b == '"':
			c := p.s[st:p.pos]
			p.pos++
			return c, true
		case b == '\\':
			if p.pos+1 >= len(p.s) {
				return "", p.fail("unterminated-quoted-pair")
			}
			nb := p.s[p.pos+1]
			if nb < 0x20 && nb != '\t' || nb == 0x7f {
				return "", p.fail("control-byte-in-quoted-string")
			}
			p.pos += 2
		case b < 0x20 && b != '\t' || b == 0x7f:
			return "", p.fail("control-byte-in-quoted-string")
		default:
			p.pos++
		}
	}
	return "", p.fail("unterminated-quoted-string")
}

func (p *parser) rangeElem() (Range, bool) {
	var rg Range
	st := p.pos
	for p.pos < len(p.s) && (isTchar(p.s[p.pos]) || p.s[p.pos] == '/') {
		p.pos++
	}
	rg.Type = p.s[st:p.pos]
	if rg.Type == "" {
		return rg, p.fail("empty-element-or-garbage")
	}
	if p.media {
		parts := strings.Split(rg.Type, "/")
		if len(parts) != 2 {
			return rg, p.fail("range-not-type-slash-subtype")
		}
		if hasUpper(rg.Type) {
			return rg, p.fail("upper-case-range")
		}
		switch {
		case parts[0] == "*" && parts[1] == "*":
		case parts[0] == "*":
			return rg, p.fail("star-slash-subtype")
		case parts[1] == "*":
			if !plainToken(parts[0]) {
				return rg, p.fail("exotic-token")
			}
		default:
			if !plainToken(parts[0]) || !plainToken(parts[1]) {
				return rg, p.fail("exotic-token")
			}
		}
	} else {
		if strings.Contains(rg.Type, "/") {
			return rg, p.fail("slash-in-coding")
		}
		if hasUpper(rg.Type) {
			return rg, p.fail("upper-case-range")
		}
		if rg.Type != "*" && !plainToken(rg.Type) {
			return rg, p.fail("exotic-token")
		}
	}
	for {
		save := p.pos
		p.ows()
		if p.pos >= len(p.s) || p.s[p.pos] != ';' {
			p.pos = save
			break
		}
		p.pos++
		p.ows()
		var pa Param
		pa.Name = p.token()
		if pa.Name == "" {
			return rg, p.fail("empty-parameter-name")
		}
		if p.pos < len(p.s) && p.s[p.pos] == '=' {
			p.pos++
			if p.pos < len(p.s) && p.s[p.pos] == '"' {
				v, ok := p.quoted()
				if !ok {
					return rg, false
				}
				pa.Value, pa.Quoted = v, true
				// (quoted strings holding ',' or 'q=' used to be left unjudged: the parser mis-split them.
				// Since the parameter loop reads one parameter at a time they are part of the judged grammar.)
			} else {
				pa.Value = p.token()
				if pa.Value == "" {
					return rg, p.fail("empty-parameter-value")
				}
			}
		} else {
			pa.Bare = true
		}
		switch {
		case !rg.HasQ && pa.Name == "q":
			if pa.Bare || pa.Quoted || !ValidQ(pa.Value) {
				return rg, p.fail("qvalue-outside-grammar")
			}
			rg.HasQ, rg.QText = true, pa.Value
		case pa.Name == "Q":
			return rg, p.fail("upper-case-q")
		case !rg.HasQ:
			if !p.media {
				return rg, p.fail("coding-with-parameters")
			}
			if pa.Bare {
				return rg, p.fail("media-parameter-without-value")
			}
			rg.Before = append(rg.Before, pa)
		default:
			if pa.Name == "q" {
				return rg, p.fail("second-q")
			}
			if !p.media {
				return rg, p.fail("coding-with-parameters")
			}
			rg.After = append(rg.After, pa)
		}
	}
	return rg, true
}

// ParseStrict parses field lines with the RFC 7231 grammar (media ranges when media, content-codings
// otherwise). lines == nil means the header is absent.
func ParseStrict(lines []string, media bool) Parsed {
	res := Parsed{Present: lines != nil, Judged: true}
	for _, s := range lines {
		p := &parser{s: s, media: media}
		var line []Range
		ok := true
		if s != "" && (isOWS(s[0]) || isOWS(s[len(s)-1])) {
			// a field value as delivered by an HTTP parser never starts or ends with whitespace
			p.fail("leading-or-trailing-ows")
		}
		p.ows()
		for p.pos < len(p.s) {
			if p.s[p.pos] == ',' && JudgeEmptyElements {
				// an empty list element (at the start of the line, or after another comma): skipped
				res.Empties++
				p.pos++
				p.ows()
				continue
			}
			rg, rok := p.rangeElem()
			if !rok {
				ok = false
				break
			}
			line = append(line, rg)
			p.ows()
			if p.pos >= len(p.s) {
				break
			}
			if p.s[p.pos] != ',' {
				ok = p.fail("garbage-after-element")
				break
			}
			p.pos++
			p.ows()
			if p.pos >= len(p.s) {
				if JudgeEmptyElements {
					res.Empties++ // a trailing comma: one more empty element
					break
				}
				ok = p.fail("empty-element-or-garbage")
				break
			}
		}
		if !ok || p.why != "" {
			res.Judged = false
			if res.Why == "" {
				res.Why = p.why
			}
		}
		res.Lines = append(res.Lines, line)
		res.Ranges = append(res.Ranges, line...)
	}
	if res.Judged && res.Present && len(res.Ranges) == 0 {
		res.Judged, res.Why = false, "present-but-empty"
	}
	if res.Judged && nearTie(res.Ranges) {
		res.Judged, res.Why = false, "near-tie-below-1e-6"
	}
	if !res.Judged {
		// a partially parsed structure must not be used
		res.Lines, res.Ranges = nil, nil
	}
	return res
}

var nearEps = big.NewRat(1, 1000000)

// nearTie: two qualities that differ, but by less than 1e-6 (not judged: the statement's
// "smaller never outranks larger" is checked on values a decimal64-free implementation can tell apart).
func nearTie(rs []Range) bool {
	qs := make([]*big.Rat, len(rs))
	for i := range rs {
		qs[i] = rs[i].Q()
	}
	d := new(big.Rat)
	for i := range qs {
		for j := i + 1; j < len(qs); j++ {
			d.Sub(qs[i], qs[j])
			d.Abs(d)
			if d.Sign() != 0 && d.Cmp(nearEps) < 0 {
				return true
			}
		}
	}
	return false
}

// NormOffer strips the parameters of an offer ("parameters ignored"), and the optional whitespace that may
// precede the ';' (RFC 7231 3.1.1.1: type "/" subtype *( OWS ";" OWS parameter )).
func NormOffer(o string) string {
	if i := strings.IndexByte(o, ';'); i >= 0 {
		return strings.TrimRight(o[:i], " \t")
	}
	return o
}

// JudgeOWSBeforeSemicolon: declared media types (consumes / produces entries, API defaults, offers) spelled with
// whitespace before the ';' are generated by C06, C07 and C08; the oracles read them as the same media type
// (RFC 7231 section 3.1.1.1). (The library used to keep the blank: repaired, see DESIGN 9.3.)
var JudgeOWSBeforeSemicolon = true

// HasOWSBeforeSemicolon reports whether one of the media types is spelled with whitespace before its ';'.
func HasOWSBeforeSemicolon(types ...string) bool {
	for _, t := range types {
		if i := strings.IndexByte(t, ';'); i > 0 && (t[i-1] == ' ' || t[i-1] == '\t') {
			return true
		}
	}
	return false
}

// OWSOfferParams are parameter suffixes with whitespace before the ';'.
var OWSOfferParams = []string{" ; charset=utf-8", "\t;charset=utf-8", " ;version=1"}

// CleanOffers reports whether every offer is a lower-case type/subtype (optionally followed by
// ";params") resp. a lower-case coding: the offers the strong oracle is defined on.
func CleanOffers(offers []string, media bool) bool {
	for _, o := range offers {
		n := NormOffer(o)
		if media {
			parts := strings.Split(n, "/")
			if len(parts) != 2 || !plainToken(parts[0]) || !plainToken(parts[1]) {
				return false
			}
		} else if !plainToken(n) || n != o {
			return false
		}
	}
	return true
}

// Specificity of a range matching an offer: -1 no match; media: 0 "*/*", 1 "type/*", 2 exact;
// codings: 0 "*", 1 exact.
func Specificity(rangeType, offer string, media bool) int {
	n := NormOffer(offer)
	if !media {
		switch {
		case rangeType == "*":
			return 0
		case rangeType == n:
			return 1
		}
		return -1
	}
	switch {
	case rangeType == "*/*":
		return 0
	case strings.HasSuffix(rangeType, "/*"):
		if strings.HasPrefix(n, rangeType[:len(rangeType)-1]) {
			return 1
		}
		return -1
	case rangeType == n:
		return 2
	}
	return -1
}

// Pick is the reference's choice.
type Pick struct {
	None       bool // nothing acceptable: the default is due
	OfferIndex int
	Offer      string
	RangeIndex int
	Q          *big.Rat
	Spec       int
}

// BestFor returns the best (q, specificity) pair with q > 0 under which offer is matched, if any.
func BestFor(ranges []Range, offer string, media bool) (q *big.Rat, spec int, rangeIdx int, ok bool) {
	for ri := range ranges {
		sp := Specificity(ranges[ri].Type, offer, media)
		if sp < 0 {
			continue
		}
		rq := ranges[ri].Q()
		if rq.Sign() <= 0 {
			continue
		}
		if !ok || rq.Cmp(q) > 0 || (rq.Cmp(q) == 0 && sp > spec) {
			q, spec, rangeIdx, ok = rq, sp, ri, true
		}
	}
	return
}

// MatchedByZeroOnly reports whether offer is matched by some range, but only by ranges of quality 0.
func MatchedByZeroOnly(ranges []Range, offer string, media bool) bool {
	matched := false
	for ri := range ranges {
		if Specificity(ranges[ri].Type, offer, media) >= 0 {
			matched = true
			if ranges[ri].Q().Sign() > 0 {
				return false
			}
		}
	}
	return matched
}

// Select implements the statement: among all (range, offer) pairs where the range matches the offer
// and has quality > 0, the lexicographic maximum of (quality, specificity of the range, earlier offer).
// A missing header selects the first offer. Nothing acceptable: Pick.None.
func Select(present bool, ranges []Range, offers []string, media bool) Pick {
	if !present {
		if len(offers) == 0 {
			return Pick{None: true}
		}
		return Pick{Offer: offers[0], OfferIndex: 0, RangeIndex: -1, Q: big.NewRat(1, 1)}
	}
	best := Pick{None: true}
	for oi, o := range offers {
		q, sp, ri, ok := BestFor(ranges, o, media)
		if !ok {
			continue
		}
		if best.None || q.Cmp(best.Q) > 0 || (q.Cmp(best.Q) == 0 && sp > best.Spec) {
			best = Pick{Offer: o, OfferIndex: oi, RangeIndex: ri, Q: q, Spec: sp}
		}
	}
	return best
}

// ---- rendering ----

func renderParam(pa Param) string {
	switch {
	case pa.Bare:
		return pa.Name
	case pa.Quoted:
		return pa.Name + `="` + pa.Value + `"`
	}
	return pa.Name + "=" + pa.Value
}

// RenderRange writes a range; ows supplies the optional whitespace around each ";" (may be nil).
func RenderRange(rg Range, ows func() string) string {
	if ows == nil {
		ows = func() string { return "" }
	}
	var sb strings.Builder
	sb.WriteString(rg.Type)
	for _, pa := range rg.Before {
		sb.WriteString(ows() + ";" + ows() + renderParam(pa))
	}
	if rg.HasQ {
		sb.WriteString(ows() + ";" + ows() + "q=" + rg.QText)
	}
	for _, pa := range rg.After {
		sb.WriteString(ows() + ";" + ows() + renderParam(pa))
	}
	return sb.String()
}

// Render writes the header lines; ows supplies optional whitespace (nil = none).
func (h Header) Render(ows func() string) []string {
	if h == nil {
		return nil
	}
	if ows == nil {
		ows = func() string { return "" }
	}
	out := make([]string, 0, len(h))
	for _, l := range h {
		var sb strings.Builder
		for i, rg := range l {
			if i > 0 {
				sb.WriteString(ows() + "," + ows())
			}
			sb.WriteString(RenderRange(rg, ows))
		}
		out = append(out, sb.String())
	}
	return out
}

// ---- feature classes (used in signatures) ----

// Features names the syntactic feature classes present in the ranges, most telling first.
func Features(lines []string, ranges []Range) []string {
	var f []string
	if HasEmptyElements(lines) {
		f = append(f, "empty-list-element")
	}
	qsuf, long, mid, after, before, quoted, huge := false, false, false, false, false, false, false
	for _, rg := range ranges {
		for _, pa := range append(append([]Param{}, rg.Before...), rg.After...) {
			if len(pa.Name) > 1 && strings.HasSuffix(pa.Name, "q") {
				qsuf = true
			}
			if pa.Quoted {
				quoted = true
			}
		}
		if rg.HasQ && FractionDigits(rg.QText) >= 100 {
			huge = true
		} else if rg.HasQ && FractionDigits(rg.QText) >= 19 {
			long = true
		} else if rg.HasQ && FractionDigits(rg.QText) >= 16 {
			mid = true // 16-18 digits: the digits as an integer may exceed 2^53
		}
		if len(rg.After) > 0 {
			after = true
		}
		if len(rg.Before) > 0 {
			before = true
		}
	}
	if qsuf {
		f = append(f, "param-name-ending-in-q")
	}
	if huge {
		f = append(f, "qvalue-100plus-fraction-digits")
	}
	if long && !huge {
		f = append(f, "qvalue-19plus-fraction-digits")
	}
	if mid && !long && !huge {
		f = append(f, "qvalue-16to18-fraction-digits")
	}
	if after {
		f = append(f, "params-after-q")
	}
	if before && !qsuf {
		f = append(f, "params-before-q")
	}
	if quoted {
		f = append(f, "quoted-string")
	}
	if len(lines) > 1 {
		f = append(f, "multi-line")
	}
	ws := false
	for _, l := range lines {
		if strings.ContainsAny(l, " \t") {
			ws = true
		}
	}
	if ws {
		f = append(f, "ows")
	}
	if len(f) == 0 {
		f = append(f, "plain")
	}
	return f
}

// ---- shrinking ----

func cloneHeader(h Header) Header {
	out := make(Header, len(h))
	for i, l := range h {
		out[i] = make([]Range, len(l))
		for j, rg := range l {
			rg.Before = append([]Param(nil), rg.Before...)
			rg.After = append([]Param(nil), rg.After...)
			out[i][j] = rg
		}
	}
	return out
}

// Shrink greedily reduces (lines, offers) while fails keeps returning true. It works on the strict
// parse of the lines (callers only shrink judged headers); when the canonical re-rendering no longer
// fails, the original text is kept and only offers are reduced.
func Shrink(lines []string, offers []string, media bool, fails func(lines []string, offers []string) bool) ([]string, []string) {
	// offers first
	for i := 0; i < len(offers) && len(offers) > 1; {
		cand := append(append([]string{}, offers[:i]...), offers[i+1:]...)
		if fails(lines, cand) {
			offers = cand
		} else {
			i++
		}
	}
	p := ParseStrict(lines, media)
	if !p.Judged || len(p.Ranges) == 0 {
		return lines, offers
	}
	h := cloneHeader(p.Lines)
	render := func(c Header) []string { return c.Render(nil) }
	try := func(c Header) bool {
		t := render(c)
		q := ParseStrict(t, media)
		return q.Judged && fails(t, offers)
	}
	if !try(h) {
		if p.Empties == 0 {
			return lines, offers
		}
		// the failure needs the empty list elements: keep one where it matters (after, else before, the ranges of a line)
		found := false
		for _, rd := range []func(Header) []string{renderEmpties(",,", ""), renderEmpties(",", ",")} {
			render = rd
			if try(h) {
				found = true
				break
			}
		}
		if !found {
			return lines, offers
		}
	}
	// one line
	if len(h) > 1 {
		c := Header{h.Flat()}
		if try(c) {
			h = c
		}
	}
	for steps := 0; steps < 200; steps++ {
		progressed := false
		for _, c := range reductions(h) {
			if len(c.Flat()) > 0 && try(c) {
				h = c
				progressed = true
				break
			}
		}
		if !progressed {
			break
		}
	}
	out := render(h)
	// offers again (the smaller header may need fewer)
	for i := 0; i < len(offers) && len(offers) > 1; {
		cand := append(append([]string{}, offers[:i]...), offers[i+1:]...)
		if fails(out, cand) {
			offers = cand
		} else {
			i++
		}
	}
	return out, offers
}

// renderEmpties renders a header with empty list elements: sep between the ranges of a line, lead before the first.
func renderEmpties(sep, lead string) func(Header) []string {
	return func(h Header) []string {
		out := make([]string, 0, len(h))
		for _, l := range h {
			parts := make([]string, len(l))
			for i, rg := range l {
				parts[i] = RenderRange(rg, nil)
			}
			out = append(out, lead+strings.Join(parts, sep))
		}
		return out
	}
}

// topLevelCommas returns the positions of the commas of a field line that are outside quoted strings.
func topLevelCommas(s string) []int {
	var out []int
	inq := false
	for i := 0; i < len(s); i++ {
		switch {
		case inq && s[i] == '\\':
			i++
		case s[i] == '"':
			inq = !inq
		case !inq && s[i] == ',':
			out = append(out, i)
		}
	}
	return out
}

// HasEmptyElements reports whether a field line holds an empty list element: a top-level comma that starts the
// line, ends it, or follows another one (optional whitespace in between).
func HasEmptyElements(lines []string) bool {
	for _, s := range lines {
		prev := -1 // end of the previous comma (start of line)
		cs := topLevelCommas(s)
		for _, c := range cs {
			if strings.Trim(s[prev+1:c], " \t") == "" {
				return true
			}
			prev = c
		}
		if len(cs) > 0 && strings.Trim(s[prev+1:], " \t") == "" {
			return true
		}
	}
	return false
}

// reductions lists every one-step simplification of h, biggest steps first.
func reductions(h Header) []Header {
	var out []Header
	for li := range h {
		for ri := range h[li] {
			c := cloneHeader(h)
			c[li] = append(c[li][:ri], c[li][ri+1:]...)
			if len(c[li]) == 0 {
				c = append(c[:li], c[li+1:]...)
			}
			out = append(out, c)
		}
	}
	for li := range h {
		for ri := range h[li] {
			rg := h[li][ri]
			for pi := range rg.Before {
				c := cloneHeader(h)
				c[li][ri].Before = append(c[li][ri].Before[:pi], c[li][ri].Before[pi+1:]...)
				out = append(out, c)
			}
			for pi := range rg.After {
				c := cloneHeader(h)
				c[li][ri].After = append(c[li][ri].After[:pi], c[li][ri].After[pi+1:]...)
				out = append(out, c)
			}
			if rg.HasQ {
				c := cloneHeader(h)
				c[li][ri].HasQ, c[li][ri].QText = false, ""
				out = append(out, c)
				if fd := FractionDigits(rg.QText); fd > 1 {
					base := len(rg.QText) - fd
					for _, keep := range []int{1, 3, 6, 18, fd / 2, fd - 1} {
						if keep >= fd || keep < 1 {
							continue
						}
						c := cloneHeader(h)
						c[li][ri].QText = rg.QText[:base+keep]
						out = append(out, c)
					}
				}
			}
			neutral := Param{Name: "p", Value: "v"}
			for pi, pa := range rg.Before {
				if pa != neutral {
					c := cloneHeader(h)
					c[li][ri].Before[pi] = neutral
					out = append(out, c)
				}
			}
			for pi, pa := range rg.After {
				if pa != neutral {
					c := cloneHeader(h)
					c[li][ri].After[pi] = neutral
					out = append(out, c)
				}
			}
		}
	}
	return out
}

// CheckParse judges the (value, q) list a parser under test returned for the text whose strict
// parse is ranges: one entry per range in order with the range's type; q == 0 exactly for quality 0;
// finite, non-negative, and ordered/equal as the exact decimals are.
func CheckParse(values []string, q []float64, ranges []Range) (mode, detail string) {
	if len(values) != len(ranges) {
		return "parse-wrong-ranges", fmt.Sprintf("ParseAccept returned %d specs %v for %d ranges", len(values), values, len(ranges))
	}
	for i := range ranges {
		if values[i] != ranges[i].Type {
			return "parse-wrong-ranges", fmt.Sprintf("spec #%d is %q, range #%d is %q", i, values[i], i, ranges[i].Type)
		}
	}
	qs := make([]*big.Rat, len(ranges))
	for i := range ranges {
		qs[i] = ranges[i].Q()
		f := q[i]
		if math.IsNaN(f) || math.IsInf(f, 0) {
			return "parse-wrong-q", fmt.Sprintf("range #%d %q: q %q parsed as %v", i, ranges[i].Type, ranges[i].QText, f)
		}
		if (qs[i].Sign() == 0) != (f == 0) {
			return "parse-wrong-q", fmt.Sprintf("range #%d %q: q text %q denotes %s but parsed as %v (zero-ness differs)", i, ranges[i].Type, ranges[i].QText, qs[i].FloatString(8), f)
		}
		if f < 0 {
			return "parse-wrong-q", fmt.Sprintf("range #%d %q: q text %q parsed as negative %v", i, ranges[i].Type, ranges[i].QText, f)
		}
	}
	for i := range ranges {
		for j := i + 1; j < len(ranges); j++ {
			want := qs[i].Cmp(qs[j])
			got := 0
			switch {
			case q[i] < q[j]:
				got = -1
			case q[i] > q[j]:
				got = 1
			}
			if want != got {
				return "parse-wrong-q", fmt.Sprintf("ranges #%d (q=%s -> %v) and #%d (q=%s -> %v): exact order %d, parsed order %d",
					i, qtext(ranges[i]), q[i], j, qtext(ranges[j]), q[j], want, got)
			}
		}
	}
	return "", ""
}

func qtext(rg Range) string {
	if !rg.HasQ {
		return "(none)"
	}
	return rg.QText
}

// ---- the offers of an operation (API-handler level, shared by C07 and C08) ----

func dedup(l []string) []string {
	seen := map[string]bool{}
	var out []string
	for _, e := range l {
		if !seen[e] {
			seen[e] = true
			out = append(out, e)
		}
	}
	return out
}

// OfferSetDiff compares the offer list a router holds for an operation (observed) with what the
// statement says an operation can produce: its declared produces list plus the API's default type
// (def, "" = none). Only membership is compared (the order of a produces list is not kept by the
// spec analyser). feature is "" when the sets agree, else the class of the first difference.
func OfferSetDiff(observed, declared []string, def string) (feature, detail string) {
	want := map[string]bool{}
	for _, t := range declared {
		want[t] = true
	}
	if def != "" {
		want[def] = true
	}
	got := map[string]bool{}
	for _, t := range observed {
		got[t] = true
	}
	if def != "" && !got[def] {
		return "default-type-missing", fmt.Sprintf("the API default %q is not among the operation's offers %q (declared produces %q)", def, observed, declared)
	}
	for _, t := range declared {
		if !got[t] {
			f := "declared-type-missing"
			if strings.Contains(t, ";") {
				f = "declared-type-with-params-missing"
			}
			return f, fmt.Sprintf("the declared type %q is not among the operation's offers %q (declared produces %q, default %q)", t, observed, declared, def)
		}
	}
	for _, t := range observed {
		if !want[t] {
			return "undeclared-type-offered", fmt.Sprintf("%q is among the operation's offers %q but neither declared (%q) nor the API default (%q)", t, observed, declared, def)
		}
	}
	return "", ""
}

// StatementOffers is the offer list of the statement: the declared produces list without the API
// default, the default last. The order inside the declared part is taken from the observed list (it is
// a map order fixed when the router is built); nothing else is taken from it: declared types the
// observed list lacks are appended in declaration order, and types it holds beyond the declaration are
// left out.
func StatementOffers(observed, declared []string, def string) []string {
	decl := map[string]bool{}
	for _, t := range declared {
		decl[t] = true
	}
	out := make([]string, 0, len(declared)+1)
	placed := map[string]bool{}
	for _, t := range observed {
		if decl[t] && t != def && !placed[t] {
			placed[t] = true
			out = append(out, t)
		}
	}
	for _, t := range dedup(declared) {
		if t != def && !placed[t] {
			placed[t] = true
			out = append(out, t)
		}
	}
	if def != "" {
		out = append(out, def)
	}
	return out
}
