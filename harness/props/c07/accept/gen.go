package accept

import (
	"fmt"
	"math/rand"
	"strings"
)

// Types is the vocabulary of media types used by offers and ranges.
// two of the types are proper prefixes of siblings (application/json-seq, text/plain-extra): lookups by prefix confuse them;
// two have a TYPE of which another type is a proper prefix (texture/plain, textile/x next to text/...): a "text/*" range
// matched without its slash would take them in
var Types = []string{"application/json", "application/xml", "text/plain", "text/html", "text/csv", "image/png", "application/json-seq", "text/plain-extra", "texture/plain", "textile/x"}

// wildcard and foreign ranges
var wildRanges = []string{"*/*", "text/*", "application/*", "image/*", "texture/*", "textile/*"}
var foreignRanges = []string{"audio/ogg", "video/*", "application/pdf"}

// SiblingRanges derives, from a media type, ranges that must NOT match it although they nearly do:
// "type/*" ranges whose type is a proper prefix (or an extension) of the type, and exact ranges one byte
// short or one byte long ("text/plai", "text/plainx", "tex/plain").
func SiblingRanges(t string) []string {
	i := strings.IndexByte(t, '/')
	if i <= 0 || i == len(t)-1 {
		return nil
	}
	typ, sub := t[:i], t[i+1:]
	out := []string{typ + "x/*", typ + "/" + sub + "x", "x" + typ + "/" + sub, typ + "x/" + sub}
	if len(typ) > 1 {
		out = append(out, typ[:len(typ)-1]+"/*", typ[:1]+"/*", typ[:len(typ)-1]+"/"+sub, typ[1:]+"/*")
	}
	if len(typ) > 3 {
		out = append(out, typ[:3]+"/*")
	}
	if len(sub) > 1 {
		out = append(out, typ+"/"+sub[:len(sub)-1], typ+"/"+sub[1:])
	}
	return out
}

// Codings is the vocabulary of content-codings.
var Codings = []string{"gzip", "deflate", "br", "identity", "compress"}

// OfferParams are parameter suffixes carried by offers.
var OfferParams = []string{"; charset=utf-8", ";charset=utf-8", "; version=1", ";q=0.1"}

// Flavour selects which syntactic feature classes a generated header uses.
type Flavour int

const (
	Plain       Flavour = iota // ranges and short q-values only
	LongQ                      // q-values with up to 80 fractional digits
	ParamsPre                  // media-range parameters before q (ordinary names)
	QSuffixName                // parameters whose name merely ends in "q"
	ParamsPost                 // accept-ext parameters after q
	Quoted                     // quoted-string parameter values
	Mixed                      // everything
)

// FlavourNames for evidence.
var FlavourNames = []string{"plain", "long-q", "params-before-q", "q-suffix-names", "params-after-q", "quoted", "mixed"}

// PickFlavour draws a flavour; plain headers dominate so that each feature is mostly seen alone.
func PickFlavour(r *rand.Rand) Flavour {
	switch k := r.Intn(100); {
	case k < 46:
		return Plain
	case k < 58:
		return LongQ
	case k < 67:
		return ParamsPre
	case k < 74:
		return QSuffixName
	case k < 82:
		return ParamsPost
	case k < 87:
		return Quoted
	default:
		return Mixed
	}
}

var favouriteK = []int{0, 100000, 100000, 50000, 50000, 80000, 90000, 10000, 100, 1, 50001, 49999, 99999, 30000, 70000}

// qGen spells qualities on the 1e-5 grid; a value may carry one fixed tail per header (below
// 0.5e-5), so two qualities of one header are either the same number or differ by >= 5e-6.
type qGen struct {
	r     *rand.Rand
	long  bool
	tails map[int]string
	used  []int
}

func (g *qGen) next() string {
	r := g.r
	k := favouriteK[r.Intn(len(favouriteK))]
	if r.Intn(10) < 3 {
		k = r.Intn(100001)
	}
	reused := false
	if len(g.used) > 0 && r.Intn(4) == 0 {
		k = g.used[r.Intn(len(g.used))] // the same number again, possibly spelled differently
		reused = true
	}
	g.used = append(g.used, k)
	if k == 100000 {
		switch r.Intn(4) {
		case 0:
			return "1"
		case 1:
			return "1."
		}
		return "1." + strings.Repeat("0", g.zeros(1))
	}
	frac := fmt.Sprintf("%05d", k)
	tail, ok := g.tails[k]
	if !ok {
		if g.long && k != 0 && r.Intn(3) > 0 {
			n := g.length() - 5
			if n > 0 {
				b := make([]byte, n)
				b[0] = byte('0' + r.Intn(5))
				for i := 1; i < n; i++ {
					b[i] = byte('0' + r.Intn(10))
				}
				tail = string(b)
			}
		}
		g.tails[k] = tail
	}
	frac += tail
	// spelling: trailing zeros trimmed or padded
	frac = strings.TrimRight(frac, "0")
	if reused && !g.long && r.Intn(3) == 0 {
		if n := 16 + r.Intn(3); n > len(frac) {
			frac += strings.Repeat("0", n-len(frac))
		}
	}
	switch r.Intn(4) {
	case 0:
		if n := g.zeros(len(frac)); n > len(frac) {
			frac += strings.Repeat("0", n-len(frac))
		}
	}
	if frac == "" {
		switch r.Intn(3) {
		case 0:
			return "0"
		case 1:
			return "0."
		}
		return "0.0"
	}
	return "0." + frac
}

// length draws a total fraction length for long values (boundaries of 64-bit accumulators included).
func (g *qGen) length() int {
	l := []int{18, 19, 19, 20, 21, 25, 38, 40, 63, 64, 65, 80}
	if g.r.Intn(25) == 0 {
		// "any number of digits": beyond what a float64 exponent (308) or any fixed-size accumulator holds
		return []int{120, 129, 308, 309, 310, 324, 400, 1000}[g.r.Intn(8)]
	}
	if g.r.Intn(3) == 0 {
		return 6 + g.r.Intn(75)
	}
	return l[g.r.Intn(len(l))]
}

func (g *qGen) zeros(min int) int {
	if g.long {
		return g.length()
	}
	n := min + g.r.Intn(4)
	if g.r.Intn(10) == 0 {
		n = 15 + g.r.Intn(4) // 15-18 digits still fit a 64-bit accumulator but not a float64 mantissa
	}
	if n > 18 {
		n = 18
	}
	if n < 1 {
		n = 1
	}
	return n
}

var preParams = []Param{{Name: "level", Value: "1"}, {Name: "charset", Value: "utf-8"}, {Name: "version", Value: "2"}, {Name: "profile", Value: "x"}, {Name: "q2", Value: "0"}}
var qSufParams = []Param{{Name: "seq", Value: "0"}, {Name: "xq", Value: "0.1"}, {Name: "freq", Value: "0.9"}, {Name: "seq", Value: "1"}, {Name: "iq", Value: "0.000"}, {Name: "qq", Value: "0"}}
var postParams = []Param{{Name: "ext", Value: "1"}, {Name: "foo", Bare: true}, {Name: "mxb", Value: "100000"}, {Name: "level", Value: "2"}}
var quotedParams = []Param{{Name: "title", Value: "a b", Quoted: true}, {Name: "title", Value: `a\"b`, Quoted: true}, {Name: "title", Value: "x;y", Quoted: true}, {Name: "t", Value: "", Quoted: true}, {Name: "t", Value: "a=b", Quoted: true}}
var quotedOutside = []Param{{Name: "title", Value: "a,b", Quoted: true}, {Name: "title", Value: "x q=0.1 y", Quoted: true}}

func pickParam(r *rand.Rand, l []Param) Param { return l[r.Intn(len(l))] }

// GenHeader builds a well-formed Accept header structure of the given flavour.
// types is the exact-type vocabulary (so that callers can bias towards their offers).
func GenHeader(r *rand.Rand, fl Flavour, types []string) Header {
	n := 1 + r.Intn(6)
	if r.Intn(3) == 0 {
		n = 1 + r.Intn(3)
	}
	g := &qGen{r: r, long: fl == LongQ || fl == Mixed, tails: map[int]string{}}
	// one header in nine is made of near misses only: every range is a sibling of a vocabulary type
	// (nothing is acceptable unless a sibling happens to be another vocabulary type)
	siblingsOnly := r.Intn(9) == 0
	sibling := func() string {
		if sr := SiblingRanges(types[r.Intn(len(types))]); len(sr) > 0 {
			return sr[r.Intn(len(sr))]
		}
		return "x/*"
	}
	var rs []Range
	for i := 0; i < n; i++ {
		var rg Range
		switch k := r.Intn(20); {
		case siblingsOnly:
			rg.Type = sibling()
		case k < 11:
			rg.Type = types[r.Intn(len(types))]
		case k < 16:
			rg.Type = wildRanges[r.Intn(len(wildRanges))]
		case k < 18:
			rg.Type = sibling()
		case k < 19:
			rg.Type = foreignRanges[r.Intn(len(foreignRanges))]
		default:
			rg.Type = "*/*"
		}
		if r.Intn(100) < 65 {
			rg.HasQ, rg.QText = true, g.next()
		}
		pre := func(l []Param, p int) {
			for r.Intn(100) < p && len(rg.Before) < 3 {
				rg.Before = append(rg.Before, pickParam(r, l))
				p /= 2
			}
		}
		post := func(l []Param, p int) {
			if !rg.HasQ {
				return
			}
			for r.Intn(100) < p && len(rg.After) < 2 {
				rg.After = append(rg.After, pickParam(r, l))
				p /= 2
			}
		}
		switch fl {
		case ParamsPre:
			pre(preParams, 60)
		case QSuffixName:
			pre(qSufParams, 60)
			if r.Intn(4) == 0 {
				post(qSufParams, 50)
			}
		case ParamsPost:
			post(postParams, 60)
		case Quoted:
			pre(quotedParams, 60)
			if r.Intn(3) == 0 {
				post(quotedParams, 50)
			}
			if r.Intn(12) == 0 {
				rg.Before = append(rg.Before, pickParam(r, quotedOutside))
			}
			// ... and after q (an accept-ext whose quoted value holds a comma or "q="): a parser that jumps to
			// the next comma, or looks for the weight textually, trips here
			if rg.HasQ && len(rg.After) < 2 && r.Intn(6) == 0 {
				rg.After = append(rg.After, pickParam(r, quotedOutside))
			}
		case Mixed:
			pre(preParams, 30)
			pre(qSufParams, 15)
			pre(quotedParams, 10)
			post(postParams, 25)
			if rg.HasQ && len(rg.After) < 2 && r.Intn(20) == 0 {
				rg.After = append(rg.After, pickParam(r, quotedOutside))
			}
		}
		rs = append(rs, rg)
	}
	// split over field lines
	h := Header{rs}
	if len(rs) > 1 && r.Intn(8) == 0 {
		cut := 1 + r.Intn(len(rs)-1)
		h = Header{rs[:cut], rs[cut:]}
		if len(rs[cut:]) > 1 && r.Intn(3) == 0 {
			c2 := cut + 1 + r.Intn(len(rs)-cut-1)
			h = Header{rs[:cut], rs[cut:c2], rs[c2:]}
		}
	}
	return h
}

// WithEmptyElements inserts, in about one header in twenty, empty list elements into rendered field lines:
// "," or ", ," before, between and after the ranges (RFC 7230 section 7: they are ignored). Off while
// JudgeEmptyElements is false.
func WithEmptyElements(r *rand.Rand, lines []string) []string {
	if !JudgeEmptyElements || len(lines) == 0 || r.Intn(20) != 0 {
		return lines
	}
	out := append([]string(nil), lines...)
	empty := func() string {
		switch r.Intn(4) {
		case 0:
			return ", ,"
		case 1:
			return ",,,"
		}
		return ","
	}
	for n := 1 + r.Intn(2); n > 0; n-- {
		li := r.Intn(len(out))
		s := out[li]
		cs := topLevelCommas(s)
		switch k := r.Intn(4); {
		case k == 0:
			s = empty() + s
		case k == 1:
			s += empty()
		case len(cs) > 0:
			c := cs[r.Intn(len(cs))]
			s = s[:c] + "," + empty()[1:] + "," + s[c+1:]
			if r.Intn(2) == 0 {
				s = s[:c] + "," + s[c:]
			}
		default:
			s = "," + s
		}
		out[li] = s
	}
	return out
}

// GenCodingHeader builds a well-formed Accept-Encoding header structure.
func GenCodingHeader(r *rand.Rand, long bool) Header {
	n := 1 + r.Intn(5)
	g := &qGen{r: r, long: long, tails: map[int]string{}}
	var rs []Range
	for i := 0; i < n; i++ {
		var rg Range
		switch k := r.Intn(10); {
		case k < 7:
			rg.Type = Codings[r.Intn(len(Codings))]
		case k < 9:
			rg.Type = "*"
		default:
			rg.Type = "zstd"
		}
		if r.Intn(100) < 70 {
			rg.HasQ, rg.QText = true, g.next()
		}
		rs = append(rs, rg)
	}
	if len(rs) > 1 && r.Intn(10) == 0 {
		cut := 1 + r.Intn(len(rs)-1)
		return Header{rs[:cut], rs[cut:]}
	}
	return Header{rs}
}

// OWS returns a whitespace supplier: style 0 none, 1 a single space after separators now and then,
// 2 random SP / HTAB runs.
func OWS(r *rand.Rand) func() string {
	switch r.Intn(5) {
	case 0, 1:
		return nil
	case 2, 3:
		return func() string {
			if r.Intn(2) == 0 {
				return " "
			}
			return ""
		}
	}
	return func() string {
		switch r.Intn(6) {
		case 0:
			return " "
		case 1:
			return "\t"
		case 2:
			return "  "
		case 3:
			return " \t "
		}
		return ""
	}
}

// GenOffers draws an offer list over Types: permutations, duplicates, offers with parameters.
func GenOffers(r *rand.Rand) []string {
	if r.Intn(40) == 0 {
		return []string{}
	}
	n := 1 + r.Intn(5)
	perm := r.Perm(len(Types))
	out := make([]string, 0, n+1)
	for i := 0; i < n; i++ {
		o := Types[perm[i%len(perm)]]
		if r.Intn(5) == 0 {
			o += OfferParams[r.Intn(len(OfferParams))]
		} else if JudgeOWSBeforeSemicolon && r.Intn(20) == 0 {
			o += OWSOfferParams[r.Intn(len(OWSOfferParams))]
		}
		out = append(out, o)
	}
	insert := func(o string) {
		// anywhere in the list: the offers that follow a repeated type matter as much as the ones before it
		k := r.Intn(len(out) + 1)
		out = append(out, "")
		copy(out[k+1:], out[k:])
		out[k] = o
	}
	if r.Intn(6) == 0 {
		insert(out[r.Intn(len(out))]) // duplicate
	}
	if r.Intn(6) == 0 {
		// the same type twice, once with parameters
		insert(NormOffer(out[r.Intn(len(out))]) + OfferParams[r.Intn(2)])
	}
	if r.Intn(12) == 0 {
		// ... or several times, with different parameters
		o := NormOffer(out[r.Intn(len(out))])
		insert(o + OfferParams[r.Intn(len(OfferParams))])
		insert(o + OfferParams[r.Intn(len(OfferParams))])
	}
	return out
}

// GenCodingOffers draws codings on offer.
func GenCodingOffers(r *rand.Rand) []string {
	n := 1 + r.Intn(4)
	perm := r.Perm(len(Codings))
	out := make([]string, 0, n)
	for i := 0; i < n; i++ {
		out = append(out, Codings[perm[i]])
	}
	if r.Intn(10) == 0 {
		out = append(out, out[0])
	}
	return out
}

// GenDefault draws the default offer ("" = absent).
func GenDefault(r *rand.Rand) string {
	switch k := r.Intn(10); {
	case k < 4:
		return ""
	case k < 8:
		return Types[r.Intn(len(Types))]
	}
	return "application/octet-stream"
}

var fragments = []string{"q=", "q=0.", "q=1", ";q=", "*/*", "text/", "text/html", "*", "/", ";", ",", " ", "\"", "\\", "=", "0", "1", ".", "9999999999", "0000000000",
	"\xff", "\x00", "\t", "\r\n", "a", "gzip", "Q=", "level=1", "q", "-", "e9", "+", "\x7f", "\xc3\xa9", ";;", ",,", "q=.", "q=-1", "q=2", "q=1.5", "q=0x1", "q=1e9", "q= 0.5", "q =0.5"}

// GenBytes produces an arbitrary-bytes field value from fragments and raw bytes.
func GenBytes(r *rand.Rand) string {
	n := r.Intn(14)
	var sb strings.Builder
	for i := 0; i < n; i++ {
		if r.Intn(6) == 0 {
			sb.WriteByte(byte(r.Intn(256)))
		} else {
			sb.WriteString(fragments[r.Intn(len(fragments))])
		}
	}
	s := sb.String()
	if len(s) > 120 {
		s = s[:120]
	}
	return s
}

// Mutate applies one byte-level edit.
func Mutate(r *rand.Rand, s string) string {
	b := []byte(s)
	switch r.Intn(4) {
	case 0:
		if len(b) > 0 {
			i := r.Intn(len(b))
			b = append(b[:i], b[i+1:]...)
		}
	case 1:
		i := r.Intn(len(b) + 1)
		f := fragments[r.Intn(len(fragments))]
		b = append(b[:i], append([]byte(f), b[i:]...)...)
	case 2:
		if len(b) > 0 {
			b[r.Intn(len(b))] = ",;=\"\\ q0/*\xff"[r.Intn(11)]
		}
	case 3:
		if len(b) > 1 {
			b = b[:r.Intn(len(b))]
		}
	}
	return string(b)
}
