package c07

import (
	"math/rand"
	"strings"

	"verif/props/c07/accept"
)

// ---- quoted parameter values with quoted-pairs ----
//
// The statement quantifies over "parameters before and after q ... quoted strings". RFC 7230 section 3.2.6:
//
//	quoted-string = DQUOTE *( qdtext / quoted-pair ) DQUOTE
//	quoted-pair   = "\" ( HTAB / SP / VCHAR / obs-text )
//
// A quoted value ends at the first DQUOTE that is not the second byte of a quoted-pair - which is not "the first
// DQUOTE that does not follow a backslash": in "C:\\" the backslash before the closing quote is itself the escaped
// byte of a pair, the quote closes the string. Whatever stands inside the quotes - commas, semicolons, "q=0", escaped
// quotes, any run of backslashes - is the value of ONE parameter that is not the weight: the range keeps its own q
// (written before or after the parameter), the ranges that follow on the field line stay ranges.
//
// The reference side is the strict parser (package accept's, and parser7 of this package): both read a quoted-string
// pair by pair as the grammar above says and keep the raw text. The generator below draws such values from units (plain
// text, separators, weights, quoted-pairs of every kind) and tails (runs of 1 to 6 backslashes in front of the
// closing quote, spelled so that the string is well formed), and hangs them on the ranges of a generated header, in
// front of and behind the weight.

// quoteEvery: one generated Accept header in quoteEvery gets quoted parameter values with quoted-pairs.
const quoteEvery = 8

var quotedNames = []string{"title", "note", "dir", "t", "alt", "desc"}

// units a quoted value is made of (raw text between the quotes)
var quotedPlain = []string{"a", "b c", "C:", "x", "ends with ", "0.5", "=", "a=b", "\t", "*/*", "text/html"}
var quotedSeparators = []string{",", ";", ", ", ";q=0", "q=0.1", ";q=1", ",q=0", ", text/html;q=1", ",*/*", ";q=0.9,", "q="}
var quotedPairs = []string{`\"`, `\\`, `\,`, `\;`, `\q`, `\a`, `\ `, `\=`, `\0`, `\"\"`, `\\\\`, `\\\"`}

// tails: what stands right in front of the closing quote. A run of 2k backslashes is k escaped backslashes (the quote
// that follows closes the string); a run of 2k+1 backslashes in front of a quote escapes that quote, the string goes on
// and is closed by the next one.
var quotedTails = []string{
	`\\`,       // 2 backslashes, then the closing quote
	`\\`,       //
	`\\\\`,     // 4
	`\\\\\\`,   // 6
	`\"`,       // 1 backslash + quote (escaped quote as the last character)
	`\\\"`,     // 3 backslashes + quote
	`\\\\\"`,   // 5 backslashes + quote
	`\"\\`,     // escaped quote, escaped backslash
	`\\\"\\`,   // 3 + quote, then 2
	`x\\`,      //
	`C:\\`,     //
	`\\,`,      // an escaped backslash, then a comma still inside
	`\\;q=0\\`, //
}

// genQuotedValue draws the raw text of a well-formed quoted-string.
func genQuotedValue(r *rand.Rand) string {
	var sb strings.Builder
	for n := r.Intn(4); n > 0; n-- {
		switch r.Intn(3) {
		case 0:
			sb.WriteString(quotedPlain[r.Intn(len(quotedPlain))])
		case 1:
			sb.WriteString(quotedSeparators[r.Intn(len(quotedSeparators))])
		default:
			sb.WriteString(quotedPairs[r.Intn(len(quotedPairs))])
		}
	}
	if r.Intn(3) > 0 {
		sb.WriteString(quotedTails[r.Intn(len(quotedTails))])
	}
	return sb.String()
}

func genQuotedParam(r *rand.Rand) accept.Param {
	return accept.Param{Name: quotedNames[r.Intn(len(quotedNames))], Value: genQuotedValue(r), Quoted: true}
}

// quotePairs hangs quoted parameters with quoted-pairs on ranges of a generated header (in place): in front of the
// weight (at any position among the media-range parameters; also on ranges without weight) and behind it (accept-ext).
// At least one range gets one; it reports whether a value with a backslash came out.
func quotePairs(r *rand.Rand, h accept.Header) bool {
	var all []*accept.Range
	for li := range h {
		for ri := range h[li] {
			all = append(all, &h[li][ri])
		}
	}
	if len(all) == 0 {
		return false
	}
	placed := false
	before := func(rg *accept.Range) {
		pa := genQuotedParam(r)
		k := r.Intn(len(rg.Before) + 1)
		rg.Before = append(rg.Before, accept.Param{})
		copy(rg.Before[k+1:], rg.Before[k:])
		rg.Before[k] = pa
		placed = placed || strings.Contains(pa.Value, `\`)
	}
	after := func(rg *accept.Range) {
		pa := genQuotedParam(r)
		k := r.Intn(len(rg.After) + 1)
		rg.After = append(rg.After, accept.Param{})
		copy(rg.After[k+1:], rg.After[k:])
		rg.After[k] = pa
		placed = placed || strings.Contains(pa.Value, `\`)
	}
	// a header of many ranges gets a few, a short one about every second range
	p := 2
	if len(all) > 8 {
		p = len(all) / 3
	}
	for _, rg := range all {
		if r.Intn(p) != 0 {
			continue
		}
		switch k := r.Intn(5); {
		case k < 2 || !rg.HasQ:
			before(rg)
		case k < 4:
			after(rg)
		default:
			before(rg)
			after(rg)
		}
	}
	for tries := 0; !placed && tries < 8; tries++ {
		// at least one, preferably on a range that others follow
		rg := all[r.Intn(len(all))]
		if len(all) > 1 && r.Intn(3) > 0 {
			rg = all[r.Intn(len(all)-1)]
		}
		if rg.HasQ && r.Intn(2) == 0 {
			after(rg)
		} else {
			before(rg)
		}
	}
	return placed
}

// quotedUnits splits the raw text of a quoted-string into its elements: a quoted-pair (two bytes) or one byte.
func quotedUnits(v string) []string {
	var out []string
	for i := 0; i < len(v); i++ {
		if v[i] == '\\' && i+1 < len(v) {
			out = append(out, v[i:i+2])
			i++
			continue
		}
		out = append(out, v[i:i+1])
	}
	return out
}

// quotedClass names the input feature class of the quoted parameter values of a header: "" (no quoted-pair),
// "quoted-pair-in-quoted-string", or - when the last element of a value is an escaped backslash, so that a backslash
// stands right in front of the closing quote - "quoted-string-ending-in-escaped-backslash".
func quotedClass(ranges []accept.Range) string {
	class := ""
	for i := range ranges {
		for _, l := range [][]accept.Param{ranges[i].Before, ranges[i].After} {
			for _, pa := range l {
				if !pa.Quoted || !strings.Contains(pa.Value, `\`) {
					continue
				}
				u := quotedUnits(pa.Value)
				if u[len(u)-1] == `\\` {
					return "quoted-string-ending-in-escaped-backslash"
				}
				class = "quoted-pair-in-quoted-string"
			}
		}
	}
	return class
}

// shrinkQuotedValues reduces the quoted values of a failing header element by element (package accept's shrinker drops
// and neutralises whole parameters only). It works on the canonical one-line rendering and returns the lines as they are
// when that is not what fails.
func shrinkQuotedValues(lines []string, offers []string, media bool, fails func(lines []string, offers []string) bool) []string {
	p := parseStrict(lines, media)
	if !p.Judged || len(p.Ranges) == 0 || len(p.Ranges) > 12 || quotedClass(p.Ranges) == "" {
		return lines
	}
	clone := func(rs []accept.Range) []accept.Range {
		out := make([]accept.Range, len(rs))
		for i, rg := range rs {
			rg.Before = append([]accept.Param(nil), rg.Before...)
			rg.After = append([]accept.Param(nil), rg.After...)
			out[i] = rg
		}
		return out
	}
	render := func(rs []accept.Range) []string { return accept.Header{rs}.Render(nil) }
	try := func(rs []accept.Range) bool {
		t := render(rs)
		return parseStrict(t, media).Judged && fails(t, offers)
	}
	rs := clone(p.Ranges)
	if !try(rs) {
		return lines
	}
	budget := 200
	for i := range rs {
		for _, sel := range []func(rg *accept.Range) []accept.Param{
			func(rg *accept.Range) []accept.Param { return rg.Before },
			func(rg *accept.Range) []accept.Param { return rg.After },
		} {
			for pi := range sel(&rs[i]) {
				if !sel(&rs[i])[pi].Quoted {
					continue
				}
				for k := 0; budget > 0; {
					u := quotedUnits(sel(&rs[i])[pi].Value)
					if k >= len(u) {
						break
					}
					cand := clone(rs)
					sel(&cand[i])[pi].Value = strings.Join(u[:k], "") + strings.Join(u[k+1:], "")
					budget--
					if try(cand) {
						rs = cand
					} else {
						k++
					}
				}
			}
		}
	}
	return render(rs)
}
