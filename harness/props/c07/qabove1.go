package c07

import (
	"math/big"
	"math/rand"
	"strings"

	"verif/props/c07/accept"
)

// ---- q-values that denote a number above 1 ----
//
// RFC 7231 caps a weight at 1 ("1" [ "." 0*3("0") ]); the statement's last clause does not: "a range whose q-value
// denotes a smaller number never outranks one denoting a larger number", for "q with any number of digits". A q-value
// written in the RFC's shape - one integer digit 0 or 1, then an optional fraction - with ANY digits in the fraction
// denotes a decimal number between 0 and 2, and the selection has to follow these numbers: 1.7 outranks 1.2, 1.001
// outranks 1 (and a range without q), every one of them outranks 0.999. An implementation that reads every "1.ddd" as
// 1 (RFC-minded clamping) lets 1.2 outrank 1.7 through the tie-breaks; one that drops such a range lets 0.5 outrank
// 1.5. Both are what the clause forbids.
//
// The reference side is package accept's (exact decimals, the statement's selection rule); only its grammar stops at
// "1" [ "." *"0" ]. Package accept is shared with C06 and C08, so the strict parser is repeated here with the one
// production widened. It is consulted only for texts that package accept leaves unjudged because of a q-value: on
// everything else the two agree by construction.
//
// Still outside the judged grammar (totality and result-is-an-offer only): integer parts other than a single 0 or 1
// ("q=2", "q=10", "q=01.5", "q=.5"), signs, exponents - none of them has the shape of a qvalue, and whether such a
// parameter is a q-value at all, or makes the range malformed, the statement does not say.

// validQ7: "0" [ "." *DIGIT ] / "1" [ "." *DIGIT ].
func validQ7(s string) bool {
	if s == "" || (s[0] != '0' && s[0] != '1') {
		return false
	}
	if len(s) == 1 {
		return true
	}
	if s[1] != '.' {
		return false
	}
	for i := 2; i < len(s); i++ {
		if s[i] < '0' || s[i] > '9' {
			return false
		}
	}
	return true
}

var ratOne = big.NewRat(1, 1)

// qAbove1 reports whether one of the ranges carries a q-value denoting a number above 1.
func qAbove1(ranges []accept.Range) bool {
	for i := range ranges {
		if ranges[i].HasQ && ranges[i].Q().Cmp(ratOne) > 0 {
			return true
		}
	}
	return false
}

// parseStrict is package accept's strict parse, with q-values above 1 inside the judged grammar.
func parseStrict(lines []string, media bool) accept.Parsed {
	p := accept.ParseStrict(lines, media)
	if p.Judged || p.Why != "qvalue-outside-grammar" {
		return p
	}
	return parseStrict7(lines, media)
}

func isOWS(b byte) bool { return b == ' ' || b == '\t' }

func isTchar(b byte) bool {
	switch {
	case b >= 'a' && b <= 'z', b >= 'A' && b <= 'Z', b >= '0' && b <= '9':
		return true
	}
	return strings.IndexByte("!#$%&'*+-.^_`|~", b) >= 0
}

func plainToken(s string) bool {
	if s == "" {
		return false
	}
	for i := 0; i < len(s); i++ {
		b := s[i]
		if !(b >= 'a' && b <= 'z' || b >= '0' && b <= '9' || b == '.' || b == '+' || b == '-' || b == '_') {
			return false
		}
	}
	return true
}

func hasUpper(s string) bool {
	for i := 0; i < len(s); i++ {
		if s[i] >= 'A' && s[i] <= 'Z' {
			return true
		}
	}
	return false
}

type parser7 struct {
	s     string
	pos   int
	media bool
	why   string
}

func (p *parser7) fail(why string) bool {
	if p.why == "" {
		p.why = why
	}
	return false
}

func (p *parser7) ows() {
	for p.pos < len(p.s) && isOWS(p.s[p.pos]) {
		p.pos++
	}
}

func (p *parser7) token() string {
	st := p.pos
	for p.pos < len(p.s) && isTchar(p.s[p.pos]) {
		p.pos++
	}
	return p.s[st:p.pos]
}

func (p *parser7) quoted() (string, bool) {
	p.pos++
	st := p.pos
	for p.pos < len(p.s) {
		b := p.s[p.pos]
		switch {
		case b == '"':
			c := p.s[st:p.pos]
			p.pos++
			return c, true
		case b == '\\':
			if p.pos+1 >= len(p.s) {
				return "", p.fail("unterminated-quoted-pair")
			}
			nb := p.s[p.pos+1]
			if nb < 0x20 && nb != '\t' || nb == 0x7f {
				return "", p.fail("control-byte-in-quoted-string")
			}
			p.pos += 2
		case b < 0x20 && b != '\t' || b == 0x7f:
			return "", p.fail("control-byte-in-quoted-string")
		default:
			p.pos++
		}
	}
	return "", p.fail("unterminated-quoted-string")
}

func (p *parser7) rangeElem() (accept.Range, bool) {
	var rg accept.Range
	st := p.pos
	for p.pos < len(p.s) && (isTchar(p.s[p.pos]) || p.s[p.pos] == '/') {
		p.pos++
	}
	rg.Type = p.s[st:p.pos]
	if rg.Type == "" {
		return rg, p.fail("empty-element-or-garbage")
	}
	if p.media {
		parts := strings.Split(rg.Type, "/")
		if len(parts) != 2 {
			return rg, p.fail("range-not-type-slash-subtype")
		}
		if hasUpper(rg.Type) {
			return rg, p.fail("upper-case-range")
		}
		switch {
		case parts[0] == "*" && parts[1] == "*":
		case parts[0] == "*":
			return rg, p.fail("star-slash-subtype")
		case parts[1] == "*":
			if !plainToken(parts[0]) {
				return rg, p.fail("exotic-token")
			}
		default:
			if !plainToken(parts[0]) || !plainToken(parts[1]) {
				return rg, p.fail("exotic-token")
			}
		}
	} else {
		if strings.Contains(rg.Type, "/") {
			return rg, p.fail("slash-in-coding")
		}
		if hasUpper(rg.Type) {
			return rg, p.fail("upper-case-range")
		}
		if rg.Type != "*" && !plainToken(rg.Type) {
			return rg, p.fail("exotic-token")
		}
	}
	for {
		save := p.pos
		p.ows()
		if p.pos >= len(p.s) || p.s[p.pos] != ';' {
			p.pos = save
			break
		}
		p.pos++
		p.ows()
		var pa accept.Param
		pa.Name = p.token()
		if pa.Name == "" {
			return rg, p.fail("empty-parameter-name")
		}
		if p.pos < len(p.s) && p.s[p.pos] == '=' {
			p.pos++
			if p.pos < len(p.s) && p.s[p.pos] == '"' {
				v, ok := p.quoted()
				if !ok {
					return rg, false
				}
				pa.Value, pa.Quoted = v, true
			} else {
				pa.Value = p.token()
				if pa.Value == "" {
					return rg, p.fail("empty-parameter-value")
				}
			}
		} else {
			pa.Bare = true
		}
		switch {
		case !rg.HasQ && pa.Name == "q":
			if pa.Bare || pa.Quoted || !validQ7(pa.Value) {
				return rg, p.fail("qvalue-outside-grammar")
			}
			rg.HasQ, rg.QText = true, pa.Value
		case pa.Name == "Q":
			return rg, p.fail("upper-case-q")
		case !rg.HasQ:
			if !p.media {
				return rg, p.fail("coding-with-parameters")
			}
			if pa.Bare {
				return rg, p.fail("media-parameter-without-value")
			}
			rg.Before = append(rg.Before, pa)
		default:
			if pa.Name == "q" {
				return rg, p.fail("second-q")
			}
			if !p.media {
				return rg, p.fail("coding-with-parameters")
			}
			rg.After = append(rg.After, pa)
		}
	}
	return rg, true
}

// parseStrict7 is accept.ParseStrict with validQ7 in the place of accept.ValidQ.
func parseStrict7(lines []string, media bool) accept.Parsed {
	res := accept.Parsed{Present: lines != nil, Judged: true}
	for _, s := range lines {
		p := &parser7{s: s, media: media}
		var line []accept.Range
		ok := true
		if s != "" && (isOWS(s[0]) || isOWS(s[len(s)-1])) {
			p.fail("leading-or-trailing-ows")
		}
		p.ows()
		for p.pos < len(p.s) {
			if p.s[p.pos] == ',' && accept.JudgeEmptyElements {
				res.Empties++
				p.pos++
				p.ows()
				continue
			}
			rg, rok := p.rangeElem()
			if !rok {
				ok = false
				break
			}
			line = append(line, rg)
			p.ows()
			if p.pos >= len(p.s) {
				break
			}
			if p.s[p.pos] != ',' {
				ok = p.fail("garbage-after-element")
				break
			}
			p.pos++
			p.ows()
			if p.pos >= len(p.s) {
				if accept.JudgeEmptyElements {
					res.Empties++
					break
				}
				ok = p.fail("empty-element-or-garbage")
				break
			}
		}
		if !ok || p.why != "" {
			res.Judged = false
			if res.Why == "" {
				res.Why = p.why
			}
		}
		res.Lines = append(res.Lines, line)
		res.Ranges = append(res.Ranges, line...)
	}
	if res.Judged && res.Present && len(res.Ranges) == 0 {
		res.Judged, res.Why = false, "present-but-empty"
	}
	if res.Judged && nearTie7(res.Ranges) {
		res.Judged, res.Why = false, "near-tie-below-1e-6"
	}
	if !res.Judged {
		res.Lines, res.Ranges = nil, nil
	}
	return res
}

var nearEps7 = big.NewRat(1, 1000000)

// nearTie7: two qualities that differ, but by less than 1e-6, are not judged (above 1 as below).
func nearTie7(rs []accept.Range) bool {
	qs := make([]*big.Rat, len(rs))
	for i := range rs {
		qs[i] = rs[i].Q()
	}
	d := new(big.Rat)
	for i := range qs {
		for j := i + 1; j < len(qs); j++ {
			d.Sub(qs[i], qs[j])
			d.Abs(d)
			if d.Sign() != 0 && d.Cmp(nearEps7) < 0 {
				return true
			}
		}
	}
	return false
}

// ---- generation ----

// raiseQ rewrites q-values of a generated header in place so that they denote numbers above 1: a written "0.ddd"
// becomes "1.ddd" (the number plus one). The generator's spacing survives: two raised values, or a raised one and one
// left alone, are the same number or differ by at least 5e-6; values written "1", "1.000" and ranges without q stay
// what they are and compete as exactly 1. mode 0: every written value; otherwise each with probability 1/2.
// It reports whether a value above 1 came out.
func raiseQ(r *rand.Rand, h accept.Header) bool {
	all := r.Intn(3) == 0
	raised := false
	var cand []*accept.Range
	for li := range h {
		for ri := range h[li] {
			rg := &h[li][ri]
			if rg.HasQ && strings.HasPrefix(rg.QText, "0") {
				cand = append(cand, rg)
			}
		}
	}
	up := func(rg *accept.Range) {
		rg.QText = "1" + rg.QText[1:]
		if strings.Trim(rg.QText[1:], ".0") != "" {
			raised = true
		}
	}
	for _, rg := range cand {
		if all || r.Intn(2) == 0 {
			up(rg)
		}
	}
	if !raised && len(cand) > 0 {
		// at least one, when the header has a value to raise
		rg := cand[r.Intn(len(cand))]
		if strings.HasPrefix(rg.QText, "0") {
			up(rg)
		}
	}
	return raised
}

// raiseEvery: one generated header in raiseEvery has q-values raised above 1.
const raiseEvery = 10

// ---- shrinking ----

// shrinkAbove1 reduces a failing pair whose header holds a q-value above 1 (package accept's shrinker re-parses its
// candidates with the narrower grammar and would stop at the offers): offers, then - on the canonical one-line
// rendering, if that still fails - ranges, parameters, weights and fraction digits, one at a time.
func shrinkAbove1(lines []string, offers []string, media bool, fails func(lines []string, offers []string) bool) ([]string, []string) {
	dropOffers := func(ls []string) {
		for i := 0; i < len(offers) && len(offers) > 1; {
			cand := append(append([]string{}, offers[:i]...), offers[i+1:]...)
			if fails(ls, cand) {
				offers = cand
			} else {
				i++
			}
		}
	}
	dropOffers(lines)
	p := parseStrict(lines, media)
	if !p.Judged || len(p.Ranges) == 0 {
		return lines, offers
	}
	clone := func(rs []accept.Range) []accept.Range {
		out := make([]accept.Range, len(rs))
		for i, rg := range rs {
			rg.Before = append([]accept.Param(nil), rg.Before...)
			rg.After = append([]accept.Param(nil), rg.After...)
			out[i] = rg
		}
		return out
	}
	render := func(rs []accept.Range) []string { return accept.Header{rs}.Render(nil) }
	try := func(rs []accept.Range) bool {
		t := render(rs)
		return parseStrict(t, media).Judged && fails(t, offers)
	}
	rs := clone(p.Ranges)
	if !try(rs) {
		return lines, offers
	}
	for i := 0; i < len(rs) && len(rs) > 1; {
		cand := append(clone(rs[:i]), clone(rs[i+1:])...)
		if try(cand) {
			rs = cand
		} else {
			i++
		}
	}
	for i := range rs {
		for len(rs[i].Before) > 0 {
			cand := clone(rs)
			cand[i].Before = cand[i].Before[1:]
			if !try(cand) {
				break
			}
			rs = cand
		}
		for len(rs[i].After) > 0 {
			cand := clone(rs)
			cand[i].After = cand[i].After[1:]
			if !try(cand) {
				break
			}
			rs = cand
		}
		if !rs[i].HasQ {
			continue
		}
		cand := clone(rs)
		cand[i].HasQ, cand[i].QText = false, ""
		cand[i].After = nil
		if try(cand) {
			rs = cand
			continue
		}
		if fd := accept.FractionDigits(rs[i].QText); fd > 1 {
			base := len(rs[i].QText) - fd
			for _, keep := range []int{1, 3, 6, 18} {
				if keep >= fd {
					break
				}
				cand := clone(rs)
				cand[i].QText = rs[i].QText[:base+keep]
				if try(cand) {
					rs = cand
					break
				}
			}
		}
	}
	out := render(rs)
	dropOffers(out)
	return out, offers
}
