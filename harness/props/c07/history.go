package c07

import (
	"net/http"

	"verif/mon"
)

// A handler of the API level is one Context that serves many requests to several operations in sequence. Each
// response is judged by the declaration of the operation that answers. A violation seen in the sequence is reported
// with the smallest case that shows it on a fresh handler: the operation alone (the case a single request always
// produced), or - when the operation alone is served correctly - the whole description with the list of requests the
// handler served before, shrunk, which a replay serves first.

type pendingViolation struct {
	sig, detail string
	c           *Case
}

type handlerReporter struct {
	m        *mon.M
	reported map[string]int
	shrinks  int
}

func newHandlerReporter(m *mon.M) *handlerReporter {
	return &handlerReporter{m: m, reported: map[string]int{}}
}

// probe replays a case on a fresh handler and returns what it raises there.
func probe(c *Case) []mon.Violation {
	scratch := mon.New("C07", "quick", 0, 0, 1, "")
	scratch.SetReplayMode()
	runHandlerReplay(scratch, c)
	return scratch.Result().Violations
}

// run serves c on h (which served `before` already) and reports what the oracle raises.
func (hr *handlerReporter) run(c *Case, b *built, h http.Handler, before []Prior) {
	m := hr.m
	var pend []pendingViolation
	b.violate = func(sig, detail string, vc *Case) { pend = append(pend, pendingViolation{sig, detail, vc}) }
	runHandlerOn(m, c, b, h)
	b.violate = nil
	if len(before) > 0 {
		others := false
		for _, p := range before {
			if p.Op != c.Op {
				others = true
			}
		}
		if others {
			m.Class("handler-history:after-responses-of-other-operations")
			if ic := b.desc.idClass(c.Op); ic != "" {
				m.Class("handler-history:after-responses-of-other-operations/" + ic)
			}
		}
	}
	for _, v := range pend {
		if len(before) == 0 {
			m.Violate(v.sig, v.detail, v.c) // a fresh handler: the case is the operation and the request
			continue
		}
		hr.reported[v.sig]++
		if hr.reported[v.sig] > 5 {
			// enough isolated witnesses of this signature (each costs fresh descriptions and handlers): counted only
			m.Class("handler:violation-not-isolated-after-cap:" + v.sig)
			continue
		}
		// does the operation alone, on a fresh handler, show it?
		same := false
		for _, pv := range probe(v.c) {
			if pv.Sig == v.sig {
				same = true
			}
		}
		if same {
			m.Violate(v.sig, v.detail, v.c)
			continue
		}
		// the description and what the handler served before
		body := c.Body && b.desc.Post
		hc := &Case{Kind: "handler", Absent: c.Absent, Lines: c.Lines, API: b.desc, Op: c.Op, WantOrder: v.c.WantOrder, Flow: c.Flow, Body: body, Earlier: c.Earlier,
			Before: append([]Prior{}, before...)}
		if len(probe(hc)) > 0 {
			if hr.shrinks < 12 {
				hr.shrinks++
				for i := len(hc.Before) - 1; i >= 0; i-- {
					cand := *hc
					cand.Before = append(append([]Prior{}, hc.Before[:i]...), hc.Before[i+1:]...)
					if len(cand.Before) > 0 && len(probe(&cand)) > 0 {
						hc.Before = cand.Before
					}
				}
			}
			runHandlerReplay(m, hc) // reports under the signature of the case with its history
			continue
		}
		m.Violate(v.sig, "(seen on a handler that had served other requests; reproduced neither by the operation alone nor by replaying that history on a fresh handler) "+v.detail, hc)
	}
}
