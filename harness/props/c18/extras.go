package c18

// Sub-workloads added in the third strengthening round. None of them is a lattice dimension: each is a small set of
// points (or call sequences) that use a vocabulary outside the lattice, judged by the same table and the same oracle.
//
//   - root kinds:     roots that are no certificate authorities (a pinned self-signed server certificate, a self-signed
//                     certificate without basic constraints) in the LoadedCA / CA file / pool slots;
//   - loaded shapes:  LoadedKey values that are no usable key (typed nil pointers, zero values) or a usable key in a form the
//                     doc comment does not promise (non-pointer values, an opaque crypto.Signer), a zero-value LoadedCertificate;
//   - rotation:       the content under ONE certificate / key / CA path changes between calls.

import (
	"crypto"
	"crypto/ecdsa"
	"crypto/elliptic"
	"crypto/rsa"
	"crypto/tls"
	"fmt"
	"io"
	"os"
	"path/filepath"
	"reflect"
	"strings"
)

// ---- TRIAGE-PENDING -------------------------------------------------------------------------------------------------

// TRIAGE-PENDING switch, RESOLVED (round 3): before the repair 7079776 in /repo client.TLSClientAuth PANICKED instead of
// returning an error when LoadedCertificate was set and LoadedKey was (*rsa.PrivateKey)(nil), (*ecdsa.PrivateKey)(nil),
// &rsa.PrivateKey{}, or a key struct that holds only the public half (&rsa.PrivateKey{PublicKey: pub},
// &ecdsa.PrivateKey{PublicKey: pub}) ("Unusable certificate or key material yields an error"): signatures
// panic/<entry>/loaded-key-typed-nil(rsa), .../loaded-key-typed-nil(ec), .../loaded-key-zero-value(rsa),
// .../loaded-key-public-half-only(rsa), .../loaded-key-public-half-only(ec); witnesses /tmp/alarms3/C18-loaded-key-*.json.
// The oracle is strict (error, no panic, no configuration). While the switch is true exactly those five LoadedKey values
// are left out of the GENERATOR (shapePoints below); replaying a recorded case never consults it. The lead repaired the
// library and asked for false: all five values are generated.
const triagePendingPanickingLoadedKeys = false

func triagePendingKey(loadedKey string) bool {
	switch loadedKey {
	case "rsa-nil", "ec-nil", "rsa-zero", "rsa-public-only", "ec-public-only":
		return triagePendingPanickingLoadedKeys
	}
	return false
}

// ---- root kinds ---------------------------------------------------------------------------------------------------------

func isRootKindValue(name string) bool { return name == "pinned" || name == "bare" }

func usesRootKind(p Point) bool {
	return isRootKindValue(p.LoadedCA) || isRootKindValue(p.CAFile) || isRootKindValue(p.Pool)
}

// notCA is the input feature of a root slot whose certificate is not flagged as a certificate authority.
func notCA(name string) string {
	if isRootKindValue(name) {
		return "(non-ca-certificate)"
	}
	return ""
}

// rootKindPoints: "trusts exactly the supplied roots" is owed whatever kind of certificate is supplied as a root. The
// non-CA roots go through each of the three root slots, combined with the other root slots, the server name and the
// insecure flag; the client identity is left unset.
func rootKindPoints() []Point {
	var out []Point
	type ni struct {
		name     string
		insecure bool
	}
	nis := []ni{{"", false}, {"alpha.test", false}, {"", true}, {"alpha.test", true}}
	for _, lca := range []string{"pinned", "bare"} {
		for _, pool := range []string{"", "ca2", "empty", "system+ca2", "pinned"} {
			for _, caf := range []string{"", "ca1", "unreadable", "garbage", "pinned"} {
				for _, x := range nis {
					out = append(out, Point{LoadedCA: lca, Pool: pool, CAFile: caf, ServerName: x.name, Insecure: x.insecure})
				}
			}
		}
	}
	for _, pool := range []string{"", "ca2", "system+ca2", "pinned"} {
		for _, x := range nis {
			out = append(out, Point{CAFile: "pinned", Pool: pool, ServerName: x.name, Insecure: x.insecure})
		}
	}
	for _, caf := range []string{"", "ca1", "garbage"} {
		for _, x := range nis {
			out = append(out, Point{Pool: "pinned", CAFile: caf, ServerName: x.name, Insecure: x.insecure})
		}
	}
	for _, lca := range []string{"ca1", "ca2"} {
		for _, x := range nis {
			out = append(out, Point{Pool: "pinned", LoadedCA: lca, ServerName: x.name, Insecure: x.insecure})
		}
	}
	return out
}

// rootKindServers: s3 serves the pinned self-signed certificate itself (accepted exactly where it is a supplied root),
// s0 is signed by the system root (accepted only where NO root is supplied), s1 is signed by CA one.
var rootKindServers = []string{"s3", "s0", "s1"}

func (w *worker) rootKindsWorkload(shard, step int) {
	m := w.m
	for i, p := range rootKindPoints() {
		if i%step != shard || w.aborted {
			continue
		}
		p := p
		m.Begin(&Case{Point: &p, RootKind: true})
		ok := w.inspectPoint(p, "TLSClientAuth")
		w.inspectPoint(p, "TLSTransport")
		w.inspectPoint(p, "TLSClient")
		m.NT(fmt.Sprintf("root-kind|%d", i))
		m.Class("root-kind:" + expect(p).rootsKind)
		if !ok {
			continue
		}
		for _, sk := range rootKindServers {
			for _, via := range []string{"", "TLSClient"} {
				m.Begin(&Case{Point: &p, Server: sk, Via: via, RootKind: true})
				w.handshake(p, sk, false, via)
				m.NT(fmt.Sprintf("root-kind-hs|%d|%s|%s", i, sk, via))
			}
		}
	}
}

// ---- loaded material shapes ---------------------------------------------------------------------------------------------

// opaqueSigner is a usable private key that is neither *rsa.PrivateKey nor *ecdsa.PrivateKey (what a key held by an
// HSM, an agent or a KMS looks like).
type opaqueSigner struct{ inner crypto.Signer }

func (s opaqueSigner) Public() crypto.PublicKey { return s.inner.Public() }
func (s opaqueSigner) Sign(r io.Reader, digest []byte, o crypto.SignerOpts) ([]byte, error) {
	return s.inner.Sign(r, digest, o)
}

// shapeOf classes a LoadedKey value of the sub-workload ("" = a lattice value).
func shapeOf(loadedKey string) string {
	switch loadedKey {
	case "rsa-nil", "ec-nil":
		return "typed-nil"
	case "rsa-zero", "ec-zero":
		return "zero-value"
	case "rsa-public-only", "ec-public-only":
		return "public-half-only"
	case "rsa-value", "ec-value":
		return "non-pointer-value"
	case "rsa-signer", "ec-signer":
		return "opaque-signer"
	case "ec-generic-curve":
		return "unnamed-curve"
	}
	return ""
}

func usesShape(p Point) bool {
	return shapeOf(p.LoadedKey) != "" || p.LoadedKey == "ec384" || p.LoadedCert == "zero" || isAlgCert(p.LoadedCert)
}

// isAlgCert: LoadedCertificate values of the sub-workload that are well-formed certificates of a key algorithm, curve or
// key pair outside the lattice: an Ed25519 certificate (certifies the lattice's Ed25519 key), an ECDSA certificate on
// P-384 (certifies the key "ec384"), a second RSA certificate whose private key nobody holds.
func isAlgCert(name string) bool { return name == "ed25519" || name == "ec384" || name == "rsa2" }

// expectAlgCert fills the identity expectation for such a certificate. Written from the statement: the key that belongs
// to the certificate makes the pair usable (the identity is owed; for the Ed25519 pair - a key type the doc comment does
// not promise to accept - an error is accepted too, but never a configuration without the identity); ANY other key,
// whatever its algorithm or form, does not belong to the certificate: unusable material, an error is owed.
func expectAlgCert(p Point, e *expectation) {
	feature := "(" + p.LoadedCert + "-certificate)"
	sh := shapeOf(p.LoadedKey)
	switch {
	case p.LoadedKey == "":
		e.idErr, e.idReason = true, "loaded-key-missing"
	case sh == "typed-nil" || sh == "zero-value" || sh == "public-half-only":
		expectShape(p, e)
	case p.LoadedCert == "ed25519" && p.LoadedKey == "ed25519":
		e.idEither, e.idReason, e.idWant = true, "loaded-key-ed25519-of-the-pair", "ed25519"
	case p.LoadedCert == "ec384" && p.LoadedKey == "ec384":
		e.idWant = "ec384"
	case sh != "":
		e.idErr, e.idReason = true, "loaded-key-mismatch("+sh+")"+feature
	default:
		e.idErr, e.idReason = true, "loaded-key-mismatch"+feature
	}
}

// shapedKey builds the LoadedKey value for a name of the sub-workload.
func shapedKey(name string, mat *material) (crypto.PrivateKey, bool) {
	switch name {
	case "rsa-nil":
		return (*rsa.PrivateKey)(nil), true // what a key variable holds after its loading failed
	case "ec-nil":
		return (*ecdsa.PrivateKey)(nil), true
	case "rsa-zero":
		return &rsa.PrivateKey{}, true
	case "ec-zero":
		return &ecdsa.PrivateKey{}, true
	case "rsa-public-only":
		return &rsa.PrivateKey{PublicKey: mat.rsaKey.PublicKey}, true // the right public key, no private exponent, no primes
	case "ec-public-only":
		return &ecdsa.PrivateKey{PublicKey: mat.ecKey.PublicKey}, true // the right public key, no scalar
	case "rsa-value":
		return *mat.rsaKey, true
	case "ec-value":
		return *mat.ecKey, true
	case "rsa-signer":
		return opaqueSigner{mat.rsaKey}, true
	case "ec-signer":
		return opaqueSigner{mat.ecKey}, true
	case "ec384":
		return mat.ec384Key, true // a usable ECDSA key on another curve (P-384); belongs to the certificate "ec384"
	case "ec-generic-curve":
		// the right key, on the generic implementation of its curve (no named-curve identity: the SEC 1 marshaller refuses it)
		k := *mat.ecKey
		k.Curve = elliptic.P256().Params()
		return &k, true
	}
	return nil, false
}

// expectShape fills the identity expectation of a point whose LoadedKey is a value of the sub-workload (LoadedCertificate
// set, Certificate unset). Written from the statement: a typed nil, a zero value and a key struct without its private
// half are no key ("unusable ... key material yields an error"); a non-pointer value or an opaque signer of the OTHER pair cannot belong to the certificate
// (an error is owed); one of the RIGHT pair (also: on the generic implementation of its curve) is a usable key in a form
// the doc comment does not promise to accept: an
// error is accepted, and so is a configuration that carries exactly the supplied identity - but never one without it.
func expectShape(p Point, e *expectation) {
	switch sh := shapeOf(p.LoadedKey); sh {
	case "typed-nil", "zero-value", "public-half-only":
		// the key family is part of the feature: the two families take different paths through the library
		e.idErr, e.idReason = true, "loaded-key-"+sh+"("+strings.SplitN(p.LoadedKey, "-", 2)[0]+")"
	default:
		if strings.HasPrefix(p.LoadedKey, p.LoadedCert+"-") {
			e.idEither, e.idReason, e.idWant = true, "loaded-key-"+sh, p.LoadedCert
		} else {
			e.idErr, e.idReason = true, "loaded-key-mismatch("+sh+")"
		}
	}
}

// panicFeature narrows the signature of a panic to the input feature that explains it (points of the lattice and of the
// older sub-workloads keep the plain signature).
func panicFeature(p Point) string {
	if !usesShape(p) || p.CertFile != "" || p.LoadedCert == "" {
		return ""
	}
	if e := expect(p); e.idReason != "" {
		return "/" + e.idReason
	}
	return ""
}

func shapePoints() []Point {
	var out []Point
	for _, lc := range []string{"rsa", "ec"} {
		for _, lk := range []string{"rsa-nil", "ec-nil", "rsa-zero", "ec-zero", "rsa-public-only", "ec-public-only", "rsa-value", "ec-value", "rsa-signer", "ec-signer", "ec-generic-curve"} {
			if triagePendingKey(lk) { // TRIAGE-PENDING: see the switch at the top of this file
				continue
			}
			for _, ca := range []string{"", "ca1"} {
				out = append(out, Point{LoadedCert: lc, LoadedKey: lk, LoadedCA: ca})
			}
		}
	}
	for _, lk := range []string{"", "ec", "rsa", "ed25519", "ec-signer"} {
		out = append(out, Point{LoadedCert: "zero", LoadedKey: lk})
	}
	// certificates of further key algorithms / curves / pairs x the loaded keys of the lattice, the P-384 key and key shapes
	for _, lc := range []string{"ed25519", "ec384", "rsa2"} {
		for _, lk := range []string{"", "rsa", "ec", "ec-other", "ed25519", "ec384", "rsa-signer", "ec-signer", "rsa-value", "ec-value", "rsa-nil", "ec-zero"} {
			for _, ca := range []string{"", "ca1"} {
				out = append(out, Point{LoadedCert: lc, LoadedKey: lk, LoadedCA: ca})
			}
		}
	}
	// and the lattice's certificates with the key on the other curve
	for _, lc := range []string{"rsa", "ec"} {
		for _, ca := range []string{"", "ca1"} {
			out = append(out, Point{LoadedCert: lc, LoadedKey: "ec384", LoadedCA: ca})
		}
	}
	// the documented override: with a certificate FILE the loaded slots are ignored, whatever they hold
	out = append(out, Point{CertFile: "ec", KeyFile: "ec", LoadedCert: "zero", LoadedKey: "ec-zero"},
		Point{CertFile: "rsa", KeyFile: "rsa", LoadedCert: "ec", LoadedKey: "ec-signer", LoadedCA: "ca1"})
	return out
}

func (w *worker) shapesWorkload(shard, step int) {
	m := w.m
	if triagePendingPanickingLoadedKeys {
		m.Note("triage_pending_loaded_key_values_left_out", 5)
	}
	for i, p := range shapePoints() {
		if i%step != shard || w.aborted {
			continue
		}
		p := p
		m.Begin(&Case{Point: &p, Shape: true})
		ok := w.inspectPoint(p, "TLSClientAuth")
		w.inspectPoint(p, "TLSTransport")
		w.inspectPoint(p, "TLSClient")
		m.NT(fmt.Sprintf("loaded-shape|%s+%s|%d", p.LoadedCert, p.LoadedKey, i))
		m.Class("loaded-shape:" + orUnset(p.LoadedCert) + "+" + orUnset(p.LoadedKey))
		if ok && p.LoadedCA == "ca1" {
			for _, via := range []string{"", "TLSClient"} {
				m.Begin(&Case{Point: &p, Server: "s1", Via: via, Shape: true})
				w.handshake(p, "s1", false, via)
				m.NT(fmt.Sprintf("loaded-shape-hs|%s+%s|%d|%s", p.LoadedCert, p.LoadedKey, i, via))
			}
		}
	}
}

// ---- rotation -----------------------------------------------------------------------------------------------------------

// Rotation is a call sequence on ONE path per file kind: before each call the content named by the step is written to
// the path (the certificate AND the key file for slot "identity", the CA file for slot "ca"); step "unreadable" removes
// the file(s). What is owed after each step is what the table says for a point that names that content: the
// configuration reflects the files as they are at the time of the call ("presents exactly the supplied client
// certificate", "trusts exactly the supplied roots", "unusable material yields an error").
type Rotation struct {
	Slot  string   `json:"slot"`  // identity | ca
	Steps []string `json:"steps"` // identity: rsa | ec | garbage | unreadable;  ca: ca1 | pinned | garbage | unreadable
	Entry string   `json:"entry,omitempty"`
}

var rotations = []Rotation{
	{Slot: "identity", Steps: []string{"ec", "rsa", "garbage", "unreadable"}},
	{Slot: "identity", Steps: []string{"rsa", "unreadable", "ec", "garbage", "rsa"}},
	{Slot: "ca", Steps: []string{"ca1", "pinned", "unreadable"}},
	{Slot: "ca", Steps: []string{"pinned", "garbage", "unreadable", "ca1"}},
}

func (w *worker) rotationWorkload(shard, step int) {
	k := 0
	for _, r := range rotations {
		for _, entry := range []string{"TLSClientAuth", "TLSTransport", "TLSClient"} {
			r := r
			r.Entry = entry
			if k%step == shard && !w.aborted {
				w.m.Begin(&Case{Rotation: &r})
				w.runRotation(r)
				w.m.NT(fmt.Sprintf("rotation|%s|%s|%s", r.Slot, strings.Join(r.Steps, ">"), entry))
			}
			k++
		}
	}
}

// rotationPoint is the point whose table row is owed after a step.
func rotationPoint(slot, content string) (Point, bool) {
	switch slot {
	case "identity":
		switch content {
		case "rsa", "ec", "garbage", "unreadable":
			return Point{CertFile: content, KeyFile: content}, true
		}
	case "ca":
		switch content {
		case "ca1", "pinned", "garbage", "unreadable":
			return Point{CAFile: content}, true
		}
	}
	return Point{}, false
}

// applyRotationStep puts the content under the rotating path(s); ok=false is a failure of the harness.
func (w *worker) applyRotationStep(slot, content string) bool {
	kinds := []string{"ca"}
	if slot == "identity" {
		kinds = []string{"crt", "key"}
	}
	for _, kind := range kinds {
		dst := w.mat.rot[kind]
		if content == "unreadable" {
			if err := os.Remove(dst); err != nil && !os.IsNotExist(err) {
				return false
			}
			continue
		}
		src := w.mat.files[content+"."+kind]
		if content == "garbage" {
			src = w.mat.files["garbage"]
		}
		data, known := w.mat.content[src]
		if !known {
			return false
		}
		// a new file is renamed over the path, as a certificate renewal does
		tmp := dst + ".new"
		if err := os.WriteFile(tmp, data, 0o600); err != nil {
			return false
		}
		if err := os.Rename(tmp, dst); err != nil {
			return false
		}
	}
	return true
}

// evalRotation runs the steps and returns the findings of the LAST step only (no side effects on the monitor).
func (w *worker) evalRotation(r Rotation) (fs []finding, classes []string, judged, harnessOK bool) {
	entry := r.Entry
	if entry == "" {
		entry = "TLSClientAuth"
	}
	dir, err := os.MkdirTemp(w.mat.dir, "rot-")
	if err != nil {
		return nil, nil, false, false
	}
	defer os.RemoveAll(dir)
	w.mat.rot = map[string]string{"crt": filepath.Join(dir, "client.crt"), "key": filepath.Join(dir, "client.key"), "ca": filepath.Join(dir, "roots.pem")}
	defer func() { w.mat.rot = nil }()
	for i, content := range r.Steps {
		p, ok := rotationPoint(r.Slot, content)
		if !ok {
			return []finding{{"bad-replay-case", "unknown rotation step " + r.Slot + "/" + content}}, nil, false, true
		}
		if !w.applyRotationStep(r.Slot, content) {
			return nil, nil, false, false
		}
		sfs, scl, _, _ := w.evalPoint(p, entry)
		if i < len(r.Steps)-1 {
			continue
		}
		prev := "nothing"
		if i > 0 {
			prev = r.Steps[i-1]
		}
		for _, f := range sfs {
			sig := f.sig + "/path-content-replaced"
			if at := strings.LastIndex(f.sig, "@"); at >= 0 { // the entry-point suffix stays at the end
				sig = f.sig[:at] + "/path-content-replaced" + f.sig[at:]
			}
			fs = append(fs, finding{sig, fmt.Sprintf("after the content under the %s path was replaced (%s, before that: %s; whole sequence %s): %s", r.Slot, content, prev, strings.Join(r.Steps, " > "), f.detail)})
		}
		classes, judged = scl, true
	}
	return fs, classes, judged, true
}

// runRotation judges every prefix of the sequence (i.e. the call after each step) and reports a finding with the
// shortest sequence that still shows it: the step alone, the step with its predecessor, or the whole prefix.
func (w *worker) runRotation(r Rotation) {
	m := w.m
	for n := 1; n <= len(r.Steps) && !w.aborted; n++ {
		pre := Rotation{Slot: r.Slot, Entry: r.Entry, Steps: r.Steps[:n]}
		fs, classes, judged, hok := w.evalRotation(pre)
		if !hok {
			m.Note("harness_rotation_file_failed", 1)
			return
		}
		if len(fs) > 0 && w.materialGone() {
			return
		}
		if judged {
			m.Eval(1)
			m.Class("rotation:" + r.Slot + ":" + pre.Steps[n-1])
			for _, k := range classes {
				m.Class("rotation:" + k)
			}
		}
		seen := map[string]bool{}
		for _, f := range fs {
			if seen[f.sig] {
				continue
			}
			seen[f.sig] = true
			best, detail := pre, f.detail
			var cands []Rotation
			cands = append(cands, Rotation{Slot: r.Slot, Entry: r.Entry, Steps: pre.Steps[n-1:]})
			if n >= 2 {
				cands = append(cands, Rotation{Slot: r.Slot, Entry: r.Entry, Steps: pre.Steps[n-2:]})
			}
			for _, c := range cands {
				if len(c.Steps) >= len(best.Steps) {
					continue
				}
				cfs, _, _, _ := w.evalRotation(c)
				hit := false
				for _, cf := range cfs {
					if cf.sig == f.sig {
						hit, detail = true, cf.detail
					}
				}
				if hit {
					best = c
					break
				}
			}
			cp := best
			cp.Steps = append([]string{}, best.Steps...)
			m.Violate(f.sig, detail, &Case{Rotation: &cp})
		}
	}
}

// ---- configuration fields the statement does not name ---------------------------------------------------------------------

// judgedFields are the exported fields of tls.Config the table judges (or, for VerifyConnection, classes by itself).
var judgedFields = map[string]bool{
	"Certificates": true, "GetCertificate": true, "GetClientCertificate": true, "RootCAs": true, "ServerName": true,
	"InsecureSkipVerify": true, "MinVersion": true, "MaxVersion": true, "VerifyPeerCertificate": true, "VerifyConnection": true,
	"SessionTicketsDisabled": true, "ClientSessionCache": true,
	"NameToCertificate": true, // deprecated; filled by nobody here, derived from Certificates
}

var unjudgedFieldIdx = func() (idx []int) {
	t := reflect.TypeOf(tls.Config{})
	for i := 0; i < t.NumField(); i++ {
		if f := t.Field(i); f.IsExported() && !judgedFields[f.Name] {
			idx = append(idx, i)
		}
	}
	return idx
}()

// unjudgedFieldsSet names the exported fields outside the table that are not the zero value (Time, KeyLogWriter,
// CipherSuites, Renegotiation, ...). Recorded as classes only.
func unjudgedFieldsSet(cfg *tls.Config) (names []string) {
	v := reflect.ValueOf(cfg).Elem()
	for _, i := range unjudgedFieldIdx {
		if !v.Field(i).IsZero() {
			names = append(names, v.Type().Field(i).Name)
		}
	}
	return names
}
