package c18

import (
	"crypto/x509"
	"fmt"
	"os"
	"testing"
	"time"

	"verif/mon"
)

func TestProfHS(t *testing.T) {
	m := mon.New("C18", "thorough", 1, 0, 16, t.TempDir())
	mat, err := mint()
	if err != nil {
		t.Fatal(err)
	}
	defer os.RemoveAll(mat.dir)
	w := &worker{m: m, mat: mat}
	if err := w.startServers(); err != nil {
		t.Fatal(err)
	}
	defer w.stopServers()
	sp, _ := x509.SystemCertPool()
	fmt.Println("system subjects:", len(sp.Subjects()))
	pts := []Point{
		{LoadedCA: "ca1", ServerName: "alpha.test"},
		{LoadedCA: "ca1", ServerName: "alpha.test", CertFile: "rsa", KeyFile: "rsa"},
		{LoadedCA: "ca1", ServerName: "alpha.test", CertFile: "ec", KeyFile: "ec"},
		{LoadedCA: "ca2", ServerName: "alpha.test"},
		{Insecure: true},
		{},
	}
	for _, p := range pts {
		for _, sk := range serverKinds {
			t0 := time.Now()
			for i := 0; i < 50; i++ {
				w.handshake(p, sk)
			}
			fmt.Printf("%+v %s: %v per handshake\n", p, sk, time.Since(t0)/50)
		}
	}
	r := m.Result()
	fmt.Println(r.Classes, r.Violations)
}
