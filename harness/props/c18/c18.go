// Package c18 monitors client.TLSClientAuth (and the TLSTransport / TLSClient wrappers): the
// finite lattice of TLS client option combinations is enumerated completely; every returned
// *tls.Config is compared with a table written from the doc comments of TLSClientOptions, and
// the security-relevant projection is exercised with real handshakes against loopback listeners.
package c18

import (
	"bytes"
	"crypto"
	"crypto/tls"
	"crypto/x509"
	"encoding/json"
	"fmt"
	"net"
	"net/http"
	"os"
	"path/filepath"
	"strings"

	"github.com/go-openapi/runtime/client"

	"verif/mon"
)

func init() {
	mon.Register(&mon.Property{
		ID:    "C18",
		Level: "exploration",
		Rule: "EXHAUSTIVE enumeration (both tiers) of the option lattice " + latticeText() + " = " + fmt.Sprint(latticeSize()) + " points, split over the workers by (permuted) index modulo the worker count; " +
			"material is minted per worker (two ECDSA CAs plus a third that is installed as Go's system root store through SSL_CERT_FILE, server certificates for two names, an RSA-2048 and an ECDSA client pair, " +
			"a second ECDSA key as the mismatching key, an Ed25519 key as the unsupported type, PEM files in a temp dir incl. a non-existent path and a non-PEM file). For every point TLSClientAuth is called and the returned config/error is compared with a table written from the doc comments " +
			"(MinVersion, InsecureSkipVerify vs ServerName, RootCAs via CertPool.Equal against an independently built pool, ServerName, callback identity by calling it, session settings, client certificate + key, error for unusable material); " +
			"TLSTransport and TLSClient are inspected the same way on the sub-lattice with default callback/session flags. " +
			"Handshakes: for the projection with default session flags where a config is returned, real TLS handshakes via tls.Dial against four loopback listeners that request and record client certificates " +
			"(S0: alpha.test + 127.0.0.1 signed by the system root; S1: alpha.test + 127.0.0.1 signed by CA1; S2: beta.test signed by CA2; legacy: S1's certificate but TLS <= 1.1 only), " +
			"with the supplied callback accepting and (a second case) rejecting; expected outcome from x509.Verify on the independently built expected pool; " +
			"quick = a PRNG-chosen tenth of the (point, listener, verdict) cases, thorough = all of them. " +
			"In addition one HTTPS GET per point of that projection goes through the *http.Client returned by TLSClient (PRNG-chosen listener and verdict; quick = a PRNG-chosen tenth of the points), judged like a handshake (signatures end in @TLSClient). " +
			"Server-name vocabulary (a separate sub-workload, not a lattice dimension): " + fmt.Sprint(len(nameVariants)) + " spellings a normalisation would change (upper case, trailing dot, port, IPv4/IPv6 literal, blanks, IDN/punycode, wildcard, single label) " +
			"x insecure x {no identity, loaded EC pair} x {no roots, LoadedCA, pool} = " + fmt.Sprint(len(variantPoints())) + " points, inspected through all three entry points, plus a handshake by either route against S1 where CA1 is trusted. " +
			"Material encodings (a separate sub-workload, not lattice dimensions): PKCS#8 key files (EC, RSA), one file holding certificate and key (named by both Certificate and Key, or paired with the plain files), a certificate file of leaf + intermediate with its key, and three mismatching pairs of those, " +
			"each without roots and with LoadedCA = " + fmt.Sprint(len(encodingPoints())) + " points, inspected through all three entry points (the whole certificate chain of the config is compared), plus a handshake by either route against S1 where CA1 is trusted (the whole chain the listener received is compared). " +
			"TLSTransport and TLSClient are also inspected on the 8 points {callback, tickets, cache} with every other slot unset. " +
			"Root kinds (a separate sub-workload): roots that are NOT flagged as certificate authorities - a self-signed server certificate pinned as a root, a self-signed certificate without basic constraints - in the LoadedCA slot, the pinned one also as CA file and as pool, " +
			"x the other root slots x server name x insecure = " + fmt.Sprint(len(rootKindPoints())) + " points, inspected through all three entry points, plus handshakes by either route against S3 (serves the pinned certificate itself), S0 and S1. " +
			"Loaded material shapes (a separate sub-workload): LoadedKey = typed nil pointer, zero value, key struct with the public half only (RSA and EC each: an error is owed, a panic is a violation), a non-pointer key value, an opaque crypto.Signer and an EC key on the generic (unnamed) implementation of its curve (of the right pair: an error or the whole identity; of the other pair: an error), " +
			"a zero-value LoadedCertificate, and loaded CERTIFICATES of further key algorithms (an Ed25519 certificate, an ECDSA certificate on P-384, a second RSA certificate whose key nobody holds) crossed with the loaded keys of the lattice, the P-384 key and key shapes (the key of the pair: the identity - for the Ed25519 pair an error is accepted too; every other key: an error is owed) = " + fmt.Sprint(len(shapePoints())) + " points through all three entry points. " +
			"Rotation (a separate sub-workload): " + fmt.Sprint(len(rotations)) + " call sequences x 3 entry points in which the content under ONE certificate+key path (ec > rsa > garbage > removed, and an order with re-creation) or ONE CA path (bundle > other root > removed ...) is replaced between calls; the call after every step is judged by the table row of the content that is there now (inspection only). " +
			"Material sizes (a separate sub-workload): certificate, key and CA FILES that hold the usable material of the lattice's files but whose size is one byte below, exactly at and half a PEM block above 4 KiB, 32 KiB, 64 KiB and 1 MiB (the boundary then falls inside the block that stands last), reached with explanatory text lines or blank lines outside the PEM blocks " +
			"or (CA files: the largest bundle not above the boundary / the smallest bundle that reaches half a block above it) with further valid root certificates minted once per worker, the needed block (the root that certifies S1, the client certificate, the client key) standing first or last in the file = " + fmt.Sprint(len(sizedPoints())) + " points, " +
			"inspected through all three entry points (the pool must hold EVERY certificate of the CA file, compared with a pool built from the certificates the monitor minted), plus handshakes by either route against S1 and, for the CA-file points, against S0 (must be refused). " +
			"CA files with FOREIGN PEM blocks (part of the material-sizes sub-workload and of its point count): blocks that are no CERTIFICATE (" + strings.Join(foreignKinds, ", ") + ": an X509 CRL, EC PARAMETERS, a PKCS#8 and a SEC1 private key, a CERTIFICATE REQUEST, an OpenSSL TRUSTED CERTIFICATE wrapping a root the file also holds as CERTIFICATE, a block of an unknown type, an encrypted legacy key block with headers) " +
			"as a fourth padding kind of the sized CA files (one foreign block, the kinds in turn, in front of every filler root) and in small files with the block orders " + strings.Join(mixLayouts, ", ") + " (R = the root that certifies S1, f = another root, X = the foreign block, or one of every kind): the pool must hold every CERTIFICATE block of the file. " +
			"Every exported field of the returned tls.Config that the table does not name (Time, KeyLogWriter, CipherSuites, Renegotiation, ...) is recorded as class unjudged-config-field-set:<field> when it is not zero. " +
			"non-trivial = a lattice point with at least one option set (distinct by lattice index), and each executed handshake (distinct by lattice index x listener x verdict)",
		Assumptions: []string{
			"a key supplied without any certificate is not judged for the error (nothing to present, no identity is dropped); if a config is returned it must carry no client certificate",
			"a readable CA file without any PEM certificate: either an error or a non-nil pool holding only the other supplied roots is accepted (it must not fall back to the system pool)",
			"the CA file is ignored when LoadedCA is set and LoadedCertificate/LoadedKey are ignored when Certificate is set, as the doc comments say; Key without Certificate is ignored",
			"an InsecureSkipVerify request that is not honoured (stricter than asked) is recorded as a class, not as a violation: the statement only forbids skipping when not requested or when a server name is given",
			"'unreadable' files are modelled by a path that does not exist (the workers run as root, permission bits do not block reads)",
			"Go's system root store is replaced, per worker process, by one minted CA (SSL_CERT_FILE / SSL_CERT_DIR), so that 'the system pool' is a known set; evidence note system_pool_pinned counts the workers where that took effect. A worker where it did not take effect evaluates nothing: the run then stays below the coverage floor (the whole lattice) and ends INCONCLUSIVE",
			"the HTTPS GET is answered by the listeners with a minimal '204' response; a GET that fails although both ends completed the handshake is not judged (the statement is about the TLS configuration)",
			"the handshake oracle trusts crypto/x509 Verify and crypto/tls of the Go toolchain; the client dials with tls.Dial, which fills an empty ServerName from the dialled host (127.0.0.1), as net/http does",
			"a worker whose hand-made TLS 1.0/1.1 client cannot complete a handshake with the legacy listener (harness self-check) evaluates nothing: the downgrade probe would be vacuous, the run ends INCONCLUSIVE (note legacy_listener_selfcheck_failed)",
			"the supplied client certificate is the whole content of the certificate slot: one certificate for the lattice's material (the config's chain and the chain received by the listener must have exactly that one entry), leaf + intermediate for the chain file of the encodings sub-workload",
			"a handshake in which either side hits the 15 s watchdog deadline is retried once and then counted as class hs-watchdog; it is never judged",
			"a handshake that is refused although the table says the server must be accepted is raised only when a second, independent attempt is refused too (the configuration is deterministic; a refusal that does not repeat is a transient of the loopback harness, class *-refusal-not-reproduced)",
			"failures of the harness itself are never violations: when the key material cannot be minted or written, or a listener cannot be opened (notes harness_mint_failed, harness_listen_failed), or a file the monitor wrote is gone or changed when an alarm is about to be raised (note harness_material_vanished), the worker evaluates nothing more, the run stays below the coverage floor and ends INCONCLUSIVE. The files live in a private directory (0700) that the monitor creates under <VERIF_OUT>/run/c18-material, not directly in $TMPDIR",
			"a certificate supplied as a root is a supplied root whatever its basic constraints say (crypto/x509 accepts any certificate of RootCAs as a trust anchor); whether a chain then verifies is left to x509.Verify on the independently built expected pool",
			"LoadedKey holding a usable key of the right pair as a non-pointer struct value or as an opaque crypto.Signer: the doc comments do not promise that form is accepted; an error is accepted, and so is a configuration that carries exactly the supplied identity; a configuration without it is a violation",
			"exported tls.Config fields that the statement does not name are classed, not judged",
			"text outside the PEM blocks of a file (explanatory lines, blank lines; RFC 7468 section 2, encoding/pem) is no part of the material: a file that holds the usable certificate / key / roots and such text is usable material of whatever size, and every certificate of a CA file is a supplied root wherever it stands in the file; the row owed is the row of the plain file",
			"a PEM block of a CA file that is no CERTIFICATE (CRL, key, parameters, request, a block of an unknown type or with headers) supplies no root and makes the file no less usable: the certificates of the file's CERTIFICATE blocks are the supplied roots, whether they stand before or after such a block. The TRUSTED CERTIFICATE block (OpenSSL's certificate-plus-trust-settings form) wraps a certificate that the same file holds as a CERTIFICATE block too, so the pool owed is the same whether a reader understands that form or skips it",
		},
		MinNontrivial: latticeSize() - 1, // exhaustive: every non-trivial point of the lattice must have been inspected
		QuickShards:   8,
		Run:           run,
		Replay:        replay,
		Exhaustive:    func(string) bool { return true },
	})
}

// ---- lattice ----

type dim struct {
	name   string
	values []string
}

var dims = []dim{
	{"cert_file", []string{"", "rsa", "ec", "unreadable", "garbage"}},
	{"key_file", []string{"", "rsa", "ec", "ec-other", "unreadable", "garbage"}},
	{"loaded_cert", []string{"", "rsa", "ec"}},
	{"loaded_key", []string{"", "rsa", "ec", "ec-other", "ed25519"}},
	{"ca_file", []string{"", "ca1", "unreadable", "garbage"}},
	{"loaded_ca", []string{"", "ca1", "ca2"}},
	{"pool", []string{"", "ca2", "empty", "system+ca2"}},
	{"server_name", []string{"", "alpha.test", "beta.test"}},
	{"insecure", []string{"", "true"}},
	{"callback", []string{"", "set"}},
	{"tickets_disabled", []string{"", "true"}},
	{"session_cache", []string{"", "true"}},
}

func latticeSize() int {
	n := 1
	for _, d := range dims {
		n *= len(d.values)
	}
	return n
}

func latticeText() string {
	var parts []string
	for _, d := range dims {
		vs := make([]string, len(d.values))
		for i, v := range d.values {
			if v == "" {
				v = "unset"
			}
			vs[i] = v
		}
		parts = append(parts, d.name+"{"+strings.Join(vs, ",")+"}")
	}
	return strings.Join(parts, " x ")
}

// Point is one option combination, by slot content name ("" = unset).
type Point struct {
	CertFile        string `json:"cert_file"`
	KeyFile         string `json:"key_file"`
	LoadedCert      string `json:"loaded_cert"`
	LoadedKey       string `json:"loaded_key"`
	CAFile          string `json:"ca_file"`
	LoadedCA        string `json:"loaded_ca"`
	Pool            string `json:"pool"`
	ServerName      string `json:"server_name"`
	Insecure        bool   `json:"insecure"`
	Callback        string `json:"callback"`
	TicketsDisabled bool   `json:"tickets_disabled"`
	SessionCache    bool   `json:"session_cache"`
}

func pointAt(idx int) Point {
	var v [12]string
	for i, d := range dims {
		v[i] = d.values[idx%len(d.values)]
		idx /= len(d.values)
	}
	return Point{CertFile: v[0], KeyFile: v[1], LoadedCert: v[2], LoadedKey: v[3], CAFile: v[4], LoadedCA: v[5], Pool: v[6],
		ServerName: v[7], Insecure: v[8] != "", Callback: v[9], TicketsDisabled: v[10] != "", SessionCache: v[11] != ""}
}

func indexOf(p Point) int {
	b := func(x bool) string {
		if x {
			return "true"
		}
		return ""
	}
	v := [12]string{p.CertFile, p.KeyFile, p.LoadedCert, p.LoadedKey, p.CAFile, p.LoadedCA, p.Pool, p.ServerName, b(p.Insecure), p.Callback, b(p.TicketsDisabled), b(p.SessionCache)}
	idx, mul := 0, 1
	for i, d := range dims {
		k := -1
		for j, s := range d.values {
			if s == v[i] {
				k = j
			}
		}
		if k < 0 {
			return -1
		}
		idx += k * mul
		mul *= len(d.values)
	}
	return idx
}

func (p Point) trivial() bool { return p == Point{} }

// Range is a batch of lattice walk positions (crash witness of an inspection batch); position k
// stands for lattice index permute(k).
type Range struct {
	From, To, Step int
}

// permute is a bijection of the lattice indices (multiplication by a prime that does not divide
// the lattice size), used so that every worker gets an even mix of cheap and expensive points.
func permute(k int) int {
	const prime = 1000003
	n := latticeSize()
	if n%prime == 0 {
		return k
	}
	return int(int64(k) * prime % int64(n))
}

// Case is one lattice point judged through one entry point, optionally with one handshake.
type Case struct {
	Range  *Range `json:"range,omitempty"`
	Point  *Point `json:"point,omitempty"`
	Entry  string `json:"entry,omitempty"`  // TLSClientAuth (default) | TLSTransport | TLSClient
	Server string `json:"server,omitempty"` // "" = inspection only | s0 | s1 | s2 | legacy
	Reject bool   `json:"reject,omitempty"` // handshake: the supplied callback rejects the peer
	Via    string `json:"via,omitempty"`    // handshake route: "" = TLSClientAuth + tls.Dial | TLSClient = HTTPS GET through the returned *http.Client
	// NameVariant marks a point of the server-name sub-workload: Point.ServerName is free text (not a lattice value)
	NameVariant bool `json:"name_variant,omitempty"`
	// Encoding marks a point of the material-encodings sub-workload: Point.CertFile / Point.KeyFile name files outside the lattice
	Encoding bool `json:"encoding,omitempty"`
	// RootKind marks a point of the root-kinds sub-workload: Point.LoadedCA / CAFile / Pool may name a root outside the lattice ("pinned", "bare")
	RootKind bool `json:"root_kind,omitempty"`
	// Shape marks a point of the loaded-material-shapes sub-workload: Point.LoadedKey / LoadedCert name a value outside the lattice (typed nil, zero value, ...)
	Shape bool `json:"loaded_shape,omitempty"`
	// Sized marks a point of the material-sizes sub-workload: Point.CertFile / KeyFile / CAFile may name a sized file (base~pad~size~pos, see sizes.go)
	Sized bool `json:"sized,omitempty"`
	// Rotation is a sequence of contents written one after the other to ONE file path, with a call after each (inspection only)
	Rotation *Rotation `json:"rotation,omitempty"`
}

// caseFor wraps a (minimised) point into a replayable case, marking the sub-workloads whose vocabulary it uses.
func caseFor(p Point) *Case {
	q := p
	return &Case{Point: &q, NameVariant: nameClass(p.ServerName) != "", Encoding: isEncodingFile(p.CertFile) || isEncodingFile(p.KeyFile),
		RootKind: usesRootKind(p), Shape: usesShape(p), Sized: usesSized(p)}
}

// ---- material encodings (a separate small sub-workload, NOT lattice dimensions) ----

// fileIdentity names the key pair a certificate or key file belongs to. The lattice's own slot contents are their
// own identity; the extra files of the sub-workload are other ENCODINGS of the same usable material: a PKCS#8 key
// file, one file holding certificate and key, and a certificate file of leaf plus intermediate ("chain": a pair of its own).
func fileIdentity(name string) string {
	if s, ok := parseSized(name); ok {
		return s.base // a sized file holds the plain material plus text outside the PEM block
	}
	switch name {
	case "ec-pkcs8", "ec-combined":
		return "ec"
	case "rsa-pkcs8":
		return "rsa"
	}
	return name
}

func isEncodingFile(name string) bool {
	return !isSized(name) && (fileIdentity(name) != name || name == "chain")
}

// encodingPoints: usable material in the other encodings (the same configuration is owed as for the plain files),
// two mismatching pairs built from them (an error is owed), each without roots and with LoadedCA = CA one.
func encodingPoints() []Point {
	pairs := [][2]string{{"ec", "ec-pkcs8"}, {"rsa", "rsa-pkcs8"}, {"ec-combined", "ec-combined"}, {"ec-combined", "ec"}, {"ec", "ec-combined"},
		{"chain", "chain"}, {"rsa", "ec-pkcs8"}, {"chain", "ec-pkcs8"}, {"ec-combined", "chain"}}
	var out []Point
	for _, pr := range pairs {
		for _, ca := range []string{"", "ca1"} {
			out = append(out, Point{CertFile: pr[0], KeyFile: pr[1], LoadedCA: ca})
		}
	}
	return out
}

// wantIdentity gives the leaf and the whole chain (leaf first) the configuration is owed to carry and present.
func wantIdentity(id string, mat *material) (leaf *x509.Certificate, chain [][]byte) {
	switch id {
	case "rsa":
		return mat.rsaCert, [][]byte{mat.rsaCert.Raw}
	case "ec":
		return mat.ecCert, [][]byte{mat.ecCert.Raw}
	case "chain":
		return mat.chainCert, [][]byte{mat.chainCert.Raw, mat.interCert.Raw}
	case "ed25519":
		return mat.edCert, [][]byte{mat.edCert.Raw}
	case "ec384":
		return mat.ec384Cert, [][]byte{mat.ec384Cert.Raw}
	}
	return nil, nil
}

func sameChain(a, b [][]byte) bool {
	if len(a) != len(b) {
		return false
	}
	for i := range a {
		if !bytes.Equal(a[i], b[i]) {
			return false
		}
	}
	return true
}

// ---- server-name vocabulary (a separate small sub-workload, NOT a lattice dimension) ----

// nameVariants are server names whose spelling a well-meaning normalisation would change (letter case,
// trailing dot, port, IP literal, blanks, IDN); "carries the given server name unchanged" is owed for each.
var nameVariants = []string{"Alpha.Test", "ALPHA.TEST", "alpha.test.", "alpha.test:443", "127.0.0.1", "127.0.0.1:8443", "::1", "[::1]", "[::1]:443",
	" alpha.test", "alpha.test ", "b\u00fccher.test", "xn--bcher-kva.test", "*.test", "alpha..test", "a"}

// nameClass names the spelling feature of a server name ("" = a plain lower-case DNS name, as in the lattice).
func nameClass(n string) string {
	if n == "" {
		return ""
	}
	if h, _, err := net.SplitHostPort(n); err == nil {
		if net.ParseIP(h) != nil {
			return "ip-literal-with-port"
		}
		return "with-port"
	}
	ldh := true
	for i := 0; i < len(n); i++ {
		b := n[i]
		if b >= 0x80 {
			return "non-ascii"
		}
		if !('a' <= b && b <= 'z' || 'A' <= b && b <= 'Z' || '0' <= b && b <= '9' || b == '-' || b == '.') {
			ldh = false
		}
	}
	switch {
	case net.ParseIP(strings.Trim(n, "[]")) != nil:
		return "ip-literal"
	case strings.TrimSpace(n) != n:
		return "surrounding-blank"
	case !ldh || strings.Contains(n, "..") || strings.HasPrefix(n, "."):
		return "other-spelling"
	case strings.HasSuffix(n, "."):
		return "trailing-dot"
	case strings.ToLower(n) != n:
		return "upper-case"
	case strings.HasPrefix(n, "xn--") || strings.Contains(n, ".xn--"):
		return "punycode"
	case !strings.Contains(n, "."):
		return "single-label"
	}
	return ""
}

// variantPoints is the sub-lattice every name variant is combined with: insecure x identity x roots.
func variantPoints() []Point {
	var out []Point
	for _, n := range nameVariants {
		for _, ins := range []bool{false, true} {
			for _, id := range []string{"", "ec"} {
				for _, roots := range []string{"", "loaded_ca", "pool"} {
					p := Point{ServerName: n, Insecure: ins, LoadedCert: id, LoadedKey: id}
					switch roots {
					case "loaded_ca":
						p.LoadedCA = "ca1"
					case "pool":
						p.Pool = "ca2"
					}
					out = append(out, p)
				}
			}
		}
	}
	return out
}

// ---- building the options of a point ----

type handles struct {
	cbCalls *int
	verdict *error // what the supplied callback answers
	cache   tls.ClientSessionCache
}

func build(p Point, mat *material) (client.TLSClientOptions, *handles) {
	var o client.TLSClientOptions
	h := &handles{cbCalls: new(int), verdict: new(error)}
	o.Certificate = mat.path(p.CertFile, "crt")
	o.Key = mat.path(p.KeyFile, "key")
	switch p.LoadedCert {
	case "rsa":
		o.LoadedCertificate = mat.rsaCert
	case "ec":
		o.LoadedCertificate = mat.ecCert
	case "zero":
		o.LoadedCertificate = &x509.Certificate{}
	case "ed25519":
		o.LoadedCertificate = mat.edCert
	case "ec384":
		o.LoadedCertificate = mat.ec384Cert
	case "rsa2":
		o.LoadedCertificate = mat.rsa2Cert
	}
	if v, ok := shapedKey(p.LoadedKey, mat); ok {
		o.LoadedKey = v
	}
	switch p.LoadedKey {
	case "rsa":
		o.LoadedKey = mat.rsaKey
	case "ec":
		o.LoadedKey = mat.ecKey
	case "ec-other":
		o.LoadedKey = mat.ecOther
	case "ed25519":
		o.LoadedKey = mat.edKey
	}
	o.CA = mat.path(p.CAFile, "ca")
	switch p.LoadedCA {
	case "ca1":
		o.LoadedCA = mat.ca1
	case "ca2":
		o.LoadedCA = mat.ca2
	case "pinned":
		o.LoadedCA = mat.pinnedCert
	case "bare":
		o.LoadedCA = mat.bareCert
	}
	o.LoadedCAPool = mat.pool(p.Pool)
	o.ServerName = p.ServerName
	o.InsecureSkipVerify = p.Insecure
	if p.Callback != "" {
		o.VerifyPeerCertificate = func([][]byte, [][]*x509.Certificate) error { *h.cbCalls++; return *h.verdict }
	}
	o.SessionTicketsDisabled = p.TicketsDisabled
	if p.SessionCache {
		h.cache = mat.cache
		o.ClientSessionCache = mat.cache
	}
	return o, h
}

// ---- the table (written from the doc comments of TLSClientOptions) ----

type expectation struct {
	// identity
	idErr    bool   // unusable client material: an error is owed
	idReason string // why
	idFree   bool   // key without certificate: error not judged
	idEither bool   // a key of the right pair in a form the doc comment does not promise (non-pointer value, opaque signer): an error is accepted; a configuration must carry the whole identity idWant
	idWant   string // "" none | rsa | ec
	idClass  string
	// roots
	rootsErr   bool // unreadable CA file that is not ignored
	rootsFree  bool // garbage CA file: error or pool-without-it
	rootsNil   bool // nothing supplied: system pool (RootCAs nil)
	rootsClass string
	// coarse classes used in signatures that do not depend on the slot contents
	idKind, rootsKind string
	// scalar
	insecure bool
}

func expect(p Point) expectation {
	var e expectation
	switch {
	case p.CertFile != "":
		// "Certificate ... If set then Key must also be set." "LoadedCertificate ... ignored if Certificate is set."
		e.idClass = "files/" + slotClass(p.CertFile) + "+" + orUnset(slotClass(p.KeyFile))
		switch {
		case p.CertFile == "unreadable":
			e.idErr, e.idReason = true, "cert-file-unreadable"
		case p.CertFile == "garbage":
			e.idErr, e.idReason = true, "cert-file-garbage"
		case p.KeyFile == "":
			e.idErr, e.idReason = true, "key-file-missing"
		case p.KeyFile == "unreadable":
			e.idErr, e.idReason = true, "key-file-unreadable"
		case p.KeyFile == "garbage":
			e.idErr, e.idReason = true, "key-file-garbage"
		case fileIdentity(p.KeyFile) != fileIdentity(p.CertFile):
			e.idErr, e.idReason = true, "key-file-mismatch"
		default:
			e.idWant = fileIdentity(p.CertFile)
		}
	case p.LoadedCert != "":
		// "If this field is set, LoadedKey is also required."
		e.idClass = "loaded/" + p.LoadedCert + "+" + orUnset(p.LoadedKey)
		switch {
		case p.LoadedCert == "zero":
			e.idErr, e.idReason = true, "loaded-cert-zero-value"
		case isAlgCert(p.LoadedCert):
			expectAlgCert(p, &e)
		case shapeOf(p.LoadedKey) != "":
			expectShape(p, &e)
		case p.LoadedKey == "":
			e.idErr, e.idReason = true, "loaded-key-missing"
		case p.LoadedKey == "ed25519":
			e.idErr, e.idReason = true, "loaded-key-unsupported-type"
		case p.LoadedKey != p.LoadedCert:
			e.idErr, e.idReason = true, "loaded-key-mismatch"
		default:
			e.idWant = p.LoadedCert
		}
	default:
		e.idClass = "no-certificate"
		if p.KeyFile != "" || p.LoadedKey != "" {
			e.idFree = true
			e.idClass = "key-without-certificate"
		}
	}
	switch {
	case p.LoadedCA != "":
		// "CA ... This field is ignored if LoadedCA is set."
		e.rootsClass = "loaded-ca" + notCA(p.LoadedCA)
		if p.CAFile != "" {
			e.rootsClass += "+ca-file-ignored(" + slotClass(p.CAFile) + ")"
		}
	case p.CAFile != "":
		e.rootsClass = "ca-file(" + slotClass(p.CAFile) + ")" + notCA(p.CAFile)
		switch p.CAFile {
		case "unreadable":
			e.rootsErr = true
		case "garbage":
			e.rootsFree = true
		}
	case p.Pool != "":
		e.rootsClass = "pool-only"
	default:
		e.rootsClass = "none-supplied"
		e.rootsNil = true
	}
	if p.Pool != "" && e.rootsClass != "pool-only" {
		e.rootsClass += "+pool"
	}
	if p.Pool == "system+ca2" {
		e.rootsClass += "(system-derived)"
	}
	if p.Pool == "pinned" {
		e.rootsClass += "(non-ca-certificate-in-pool)"
	}
	switch {
	case p.CertFile != "":
		e.idKind = "cert-file" + sizedKind(p.CertFile)
		if k := sizedKind(p.KeyFile); k != "" {
			e.idKind += "+key-file" + k
		}
	case p.LoadedCert != "":
		e.idKind = "loaded-cert"
	default:
		e.idKind = e.idClass
	}
	switch {
	case p.LoadedCA != "":
		e.rootsKind = "loaded-ca" + notCA(p.LoadedCA)
	case p.CAFile != "":
		e.rootsKind = "ca-file" + notCA(p.CAFile) + sizedKind(p.CAFile)
	case p.Pool != "":
		e.rootsKind = "pool-only"
	default:
		e.rootsKind = "none-supplied"
	}
	if p.Pool != "" && e.rootsKind != "pool-only" {
		e.rootsKind += "+pool"
	}
	if p.Pool == "pinned" {
		e.rootsKind += "(non-ca-certificate)"
	}
	// "ServerName ... If this field is set then InsecureSkipVerify will be ignored and treated as false."
	e.insecure = p.Insecure && p.ServerName == ""
	return e
}

func orUnset(s string) string {
	if s == "" {
		return "unset"
	}
	return s
}

// expectedPool builds, independently of the code under test, the pool that holds exactly the
// supplied roots (nil = nothing supplied, i.e. the system pool).
func expectedPool(p Point, mat *material) *x509.CertPool {
	e := expect(p)
	if e.rootsNil {
		return nil
	}
	pool := mat.pool(p.Pool)
	if pool == nil {
		pool = x509.NewCertPool()
	}
	switch {
	case p.LoadedCA == "ca1":
		pool.AddCert(mat.ca1)
	case p.LoadedCA == "ca2":
		pool.AddCert(mat.ca2)
	case p.LoadedCA == "pinned":
		pool.AddCert(mat.pinnedCert) // a supplied root is a supplied root, whatever its basic constraints say
	case p.LoadedCA == "bare":
		pool.AddCert(mat.bareCert)
	case p.CAFile == "pinned":
		pool.AddCert(mat.pinnedCert)
	case p.CAFile == "ca1":
		pool.AppendCertsFromPEM(mat.caBundlePEM) // every certificate of the file is a supplied root
	case isSized(p.CAFile):
		// every certificate of the file is a supplied root, wherever it stands and however large the file is; the
		// certificates are the ones the monitor minted and wrote, not what a PEM parser finds in the file
		roots, built := mat.sizedRoots[p.CAFile]
		if !built {
			mat.sizedMissing = true
		}
		for _, c := range roots {
			pool.AddCert(c)
		}
	}
	return pool
}

type finding struct{ sig, detail string }

// inspect judges what one entry point returned for a point.
func inspect(p Point, cfg *tls.Config, err error, h *handles, mat *material, entry string) (fs []finding, classes []string) {
	e := expect(p)
	sfx := ""
	if entry != "" && entry != "TLSClientAuth" {
		sfx = "@" + entry
	}
	add := func(sig, format string, a ...interface{}) {
		fs = append(fs, finding{sig + sfx, entry + ": " + fmt.Sprintf(format, a...)})
	}
	if err != nil {
		classes = append(classes, "returned-error")
		switch {
		case e.idErr || e.rootsErr:
			classes = append(classes, "error-owed-and-returned")
		case e.idFree || e.rootsFree:
			classes = append(classes, "error-in-unjudged-zone")
		case e.idEither:
			classes = append(classes, "error-for-key-form-not-promised:"+e.idReason)
		default:
			add("unexpected-error/"+e.idKind+"/"+e.rootsKind, "returned error %q although every supplied option is usable (identity: %s, roots: %s)", err, e.idClass, e.rootsClass)
		}
		return
	}
	if cfg == nil {
		add("nil-config-nil-error", "returned (nil, nil)")
		return
	}
	classes = append(classes, "returned-config")
	// unusable material
	if e.idErr {
		if len(cfg.Certificates) == 0 && cfg.GetClientCertificate == nil {
			add("client-cert-silently-dropped/"+e.idReason, "no error and a configuration WITHOUT client certificate although a certificate was supplied with unusable material (%s: %s)", e.idReason, e.idClass)
		} else {
			add("unusable-client-material-accepted/"+e.idReason, "no error although the client material is unusable (%s: %s); config carries %d certificate(s)", e.idReason, e.idClass, len(cfg.Certificates))
		}
	} else {
		// client identity
		want, wantChain := wantIdentity(e.idWant, mat)
		switch {
		case want == nil:
			if len(cfg.Certificates) != 0 || cfg.GetClientCertificate != nil || cfg.GetCertificate != nil {
				add("client-identity-fabricated/"+e.idClass, "no certificate was supplied but the config carries %d certificate(s) / a certificate callback", len(cfg.Certificates))
			}
		case len(cfg.Certificates) == 0:
			add("client-cert-silently-dropped/usable-"+e.idClass, "usable certificate and key supplied (%s) but the config carries no client certificate", e.idClass)
		case len(cfg.Certificates) != 1 || len(cfg.Certificates[0].Certificate) == 0 || !bytes.Equal(cfg.Certificates[0].Certificate[0], want.Raw):
			add("client-cert-different/"+e.idClass, "the config carries %d certificate(s) whose leaf is not the supplied %s certificate", len(cfg.Certificates), e.idWant)
		case !sameChain(cfg.Certificates[0].Certificate, wantChain):
			// "presents exactly the supplied client certificate": the chain is the supplied certificate(s), nothing added or lost
			add("client-cert-chain-differs/"+e.idClass, "the certificate entry of the config holds %d certificate(s) after the right leaf, the supplied material holds %d", len(cfg.Certificates[0].Certificate)-1, len(wantChain)-1)
		case cfg.GetClientCertificate != nil:
			add("client-cert-callback-installed/"+e.idClass, "GetClientCertificate is set and would override the supplied certificate")
		default:
			pk, ok := cfg.Certificates[0].PrivateKey.(crypto.Signer)
			type eq interface{ Equal(crypto.PublicKey) bool }
			if !ok {
				add("client-key-unusable/"+e.idClass, "the private key in the config is no crypto.Signer: %T", cfg.Certificates[0].PrivateKey)
			} else if pub, ok := pk.Public().(eq); !ok || !pub.Equal(want.PublicKey) {
				add("client-key-different/"+e.idClass, "the private key in the config does not belong to the supplied certificate")
			}
		}
	}
	if e.rootsErr {
		add("unreadable-ca-file-accepted/"+e.rootsClass, "no error although the CA file cannot be read and no LoadedCA overrides it; RootCAs nil=%v", cfg.RootCAs == nil)
	}
	// version floor
	if cfg.MinVersion < tls.VersionTLS12 {
		add("min-version-below-tls12", "MinVersion = %#x", cfg.MinVersion)
	}
	if cfg.MaxVersion != 0 && cfg.MaxVersion < tls.VersionTLS12 {
		add("max-version-below-tls12", "MaxVersion = %#x", cfg.MaxVersion)
	}
	// verification
	if cfg.InsecureSkipVerify && !e.insecure {
		if !p.Insecure {
			add("insecure-skip-verify-not-requested", "InsecureSkipVerify is true although it was not requested")
		} else {
			add("insecure-skip-verify-despite-server-name", "InsecureSkipVerify is true although ServerName %q is given", p.ServerName)
		}
	}
	if !cfg.InsecureSkipVerify && e.insecure {
		classes = append(classes, "insecure-request-not-honoured")
	}
	// roots
	if !e.rootsErr {
		want := expectedPool(p, mat)
		switch {
		case want == nil:
			if cfg.RootCAs != nil {
				sys, _ := x509.SystemCertPool()
				if sys == nil || !sys.Equal(cfg.RootCAs) {
					add("roots-not-system-when-none-supplied", "no root was supplied but RootCAs is a pool that differs from the system pool")
				}
			}
		case cfg.RootCAs == nil:
			add("roots-system-although-supplied/"+e.rootsClass, "roots were supplied (%s) but RootCAs is nil, i.e. the system pool is trusted instead", e.rootsClass)
		case !want.Equal(cfg.RootCAs):
			add("roots-differ/"+e.rootsClass, "RootCAs does not hold exactly the supplied roots (%s): expected %d subject(s) system-derived=%v, got %d subject(s)%s",
				e.rootsClass, len(want.Subjects()), p.Pool == "system+ca2", len(cfg.RootCAs.Subjects()), describeSized(p, mat)) //nolint:staticcheck
		}
	}
	// carried unchanged
	if cfg.ServerName != p.ServerName {
		sig := "server-name-changed"
		if nc := nameClass(p.ServerName); nc != "" {
			sig += "/" + nc
		}
		add(sig, "ServerName = %q, given %q", cfg.ServerName, p.ServerName)
	}
	switch {
	case p.Callback == "" && cfg.VerifyPeerCertificate != nil:
		add("callback-fabricated", "VerifyPeerCertificate is set although none was given")
	case p.Callback != "" && cfg.VerifyPeerCertificate == nil:
		add("callback-dropped", "VerifyPeerCertificate was given but is nil in the config")
	case p.Callback != "":
		before, saved := *h.cbCalls, *h.verdict
		*h.verdict = errRejected
		got1 := cfg.VerifyPeerCertificate(nil, nil)
		*h.verdict = nil
		got2 := cfg.VerifyPeerCertificate(nil, nil)
		*h.verdict = saved
		if *h.cbCalls != before+2 || got1 != errRejected || got2 != nil {
			add("callback-changed", "calling the config's VerifyPeerCertificate twice did not reach the given callback once per call with its verdicts (calls %d -> %d, returned %v then %v)", before, *h.cbCalls, got1, got2)
		}
	}
	if cfg.SessionTicketsDisabled != p.TicketsDisabled {
		add("session-tickets-changed", "SessionTicketsDisabled = %v, given %v", cfg.SessionTicketsDisabled, p.TicketsDisabled)
	}
	if p.SessionCache && cfg.ClientSessionCache != h.cache {
		add("session-cache-changed", "ClientSessionCache is not the given cache")
	}
	if !p.SessionCache && cfg.ClientSessionCache != nil {
		add("session-cache-fabricated", "ClientSessionCache is set although none was given")
	}
	if cfg.VerifyConnection != nil {
		classes = append(classes, "verify-connection-set")
	}
	// every other exported field of the configuration: the statement names none of them, so a field that is set is
	// recorded as a class (visible in the evidence), not judged
	// (looked at on the points with default callback/session flags, an eighth of the lattice, and on every sub-workload)
	if p.wrapperProjection() {
		for _, name := range unjudgedFieldsSet(cfg) {
			classes = append(classes, "unjudged-config-field-set:"+name)
		}
	}
	return
}

// call invokes one entry point and returns the tls.Config it produced.
func call(entry string, o client.TLSClientOptions) (cfg *tls.Config, err error, shape string) {
	switch entry {
	case "TLSTransport":
		rt, e := client.TLSTransport(o)
		if e != nil {
			return nil, e, ""
		}
		tr, ok := rt.(*http.Transport)
		if !ok || tr == nil {
			return nil, nil, fmt.Sprintf("TLSTransport returned %T", rt)
		}
		return tr.TLSClientConfig, nil, ""
	case "TLSClient":
		c, e := client.TLSClient(o)
		if e != nil {
			return nil, e, ""
		}
		if c == nil {
			return nil, nil, "TLSClient returned a nil client"
		}
		tr, ok := c.Transport.(*http.Transport)
		if !ok || tr == nil {
			return nil, nil, fmt.Sprintf("TLSClient returned a client with transport %T", c.Transport)
		}
		return tr.TLSClientConfig, nil, ""
	default:
		cfg, err = client.TLSClientAuth(o)
		return cfg, err, ""
	}
}

type worker struct {
	m         *mon.M
	mat       *material
	srv       map[string]*server
	legacyOK  bool // the legacy listener completed a TLS <= 1.1 handshake with a hand-made client (self-check of the harness)
	minimised map[string]int
	// aborted: the monitor's own files vanished or changed under it (somebody else's clean-up): nothing more is
	// evaluated or raised by this worker, the run stays below the coverage floor and ends INCONCLUSIVE
	aborted bool
}

// materialGone is asked before anything is raised: an alarm on a worker whose files are no longer what the monitor
// wrote says nothing about the library.
func (w *worker) materialGone() bool {
	if w.aborted {
		return true
	}
	if w.mat != nil && w.mat.sizedMissing {
		w.aborted = true
		w.m.Note("harness_sized_file_not_built", 1)
		fmt.Fprintln(os.Stderr, "C18: a sized file was asked for before the monitor had built it (plumbing of the harness): nothing more is evaluated, the run is inconclusive")
		return true
	}
	if w.mat != nil && !w.mat.intact() {
		w.aborted = true
		w.m.Note("harness_material_vanished", 1)
		fmt.Fprintln(os.Stderr, "C18: a key/certificate file written by the monitor is gone or was changed by somebody else: nothing more is evaluated, the run is inconclusive")
		return true
	}
	return false
}

// evalPoint calls one entry point for the point and judges the result (no side effects on the monitor).
func (w *worker) evalPoint(p Point, entry string) (fs []finding, classes []string, err error, ok bool) {
	o, h := build(p, w.mat)
	var cfg *tls.Config
	var shape string
	pv, stk := mon.Catch(func() { cfg, err, shape = call(entry, o) })
	if pv != nil {
		return []finding{{"panic/" + entry + panicFeature(p), fmt.Sprintf("%s panicked: %v\n%s", entry, pv, stk)}}, nil, nil, false
	}
	if shape != "" {
		return []finding{{"wrapper-shape/" + entry, shape}}, nil, nil, false
	}
	fs, classes = inspect(p, cfg, err, h, w.mat, entry)
	return fs, classes, err, err == nil && cfg != nil
}

// minimisePoint greedily unsets slots while the same signature keeps firing.
func minimisePoint(p Point, fires func(Point) bool) Point {
	cur := p
	muts := []func(*Point){
		func(q *Point) { q.TicketsDisabled = false }, func(q *Point) { q.SessionCache = false }, func(q *Point) { q.Callback = "" },
		func(q *Point) { q.Pool = "" }, func(q *Point) { q.CAFile = "" }, func(q *Point) { q.LoadedCA = "" },
		func(q *Point) { q.LoadedKey = "" }, func(q *Point) { q.LoadedCert = "" }, func(q *Point) { q.KeyFile = "" }, func(q *Point) { q.CertFile = "" },
		func(q *Point) { q.Insecure = false }, func(q *Point) { q.ServerName = "" },
		func(q *Point) { // a system-derived pool where a plain one shows the same
			if q.Pool == "system+ca2" {
				q.Pool = "ca2"
			}
		},
	}
	for pass := 0; pass < 2; pass++ {
		for _, mu := range muts {
			q := cur
			mu(&q)
			if q != cur && fires(q) {
				cur = q
			}
		}
	}
	return cur
}

func (w *worker) firstFew(sig string) bool {
	if w.minimised == nil {
		w.minimised = map[string]int{}
	}
	w.minimised[sig]++
	return w.minimised[sig] <= 3
}

// inspectPoint runs the configuration inspection of one point through one entry point.
func (w *worker) inspectPoint(p Point, entry string) (ok bool) {
	m := w.m
	if w.aborted {
		return false
	}
	fs, classes, err, ok := w.evalPoint(p, entry)
	if len(fs) > 0 && w.materialGone() {
		return false
	}
	m.Eval(1)
	for _, k := range classes {
		m.Class(entry + ":" + k)
	}
	seen := map[string]bool{}
	for _, f := range fs {
		if seen[f.sig] {
			continue
		}
		seen[f.sig] = true
		if !w.firstFew(f.sig) {
			m.Violate(f.sig, f.detail, nil) // counted; the harness keeps only the first few witnesses per sig
			continue
		}
		sig, detail := f.sig, f.detail
		mp := minimisePoint(p, func(q Point) bool {
			qfs, _, _, _ := w.evalPoint(q, entry)
			for _, qf := range qfs {
				if qf.sig == sig {
					detail = qf.detail
					return true
				}
			}
			return false
		})
		c := caseFor(mp)
		c.Entry = entry
		m.Violate(sig, detail, c)
	}
	if m.WantSample() {
		m.Sample(map[string]interface{}{"case": &Case{Point: &p, Entry: entry}, "error": fmt.Sprint(err), "findings": len(fs), "expected": describe(expect(p))})
	}
	return ok
}

func describe(e expectation) string {
	var sb strings.Builder
	switch {
	case e.idErr:
		sb.WriteString("error owed: " + e.idReason)
	case e.idFree:
		sb.WriteString("identity: error not judged, no certificate")
	case e.idWant == "":
		sb.WriteString("identity: none")
	default:
		sb.WriteString("identity: " + e.idWant + " certificate")
	}
	sb.WriteString("; roots: " + e.rootsClass)
	if e.rootsErr {
		sb.WriteString(" (error owed)")
	}
	fmt.Fprintf(&sb, "; insecure=%v", e.insecure)
	return sb.String()
}

func (p Point) wrapperProjection() bool {
	return p.Callback == "" && !p.TicketsDisabled && !p.SessionCache
}

// sessionSubLattice: the 8 points {callback, tickets, cache} with every other slot unset; the wrappers are inspected
// on them too, so that a wrapper that rebuilds the configuration from selected fields loses no session setting unseen.
func (p Point) sessionSubLattice() bool {
	q := p
	q.Callback, q.TicketsDisabled, q.SessionCache = "", false, false
	return q == Point{}
}

func (p Point) handshakeProjection() bool { return !p.TicketsDisabled && !p.SessionCache }

var serverKinds = []string{"s0", "s1", "s2", "legacy"}

func (w *worker) sweep(from, to, step int, handshakes bool) {
	m := w.m
	r := m.Rand("handshake-sample")
	rg := m.Rand("https-get-sample") // a stream of its own: the handshake sample stays what it was
	batch := 0
	for k := from; k < to && !w.aborted; k += step {
		if batch%1000 == 0 {
			end := k + 1000*step
			if end > to {
				end = to
			}
			m.Begin(&Case{Range: &Range{From: k, To: end, Step: step}})
		}
		batch++
		idx := permute(k)
		p := pointAt(idx)
		ok := w.inspectPoint(p, "TLSClientAuth")
		if !p.trivial() {
			m.NT(fmt.Sprintf("cfg|%d", idx))
		}
		if p.wrapperProjection() || p.sessionSubLattice() {
			w.inspectPoint(p, "TLSTransport")
			w.inspectPoint(p, "TLSClient")
		}
		if handshakes && ok && p.handshakeProjection() {
			did := false
			for _, sk := range serverKinds {
				for _, reject := range []bool{false, true} {
					if reject && p.Callback == "" {
						continue
					}
					m.Note("handshake_cases_in_projection", 1)
					if m.Quick() && r.Intn(10) != 0 {
						continue
					}
					did = true
					m.Begin(&Case{Point: &p, Server: sk, Reject: reject})
					w.handshake(p, sk, reject, "")
					m.NT(fmt.Sprintf("hs|%d|%s|%v", idx, sk, reject))
				}
			}
			// one HTTPS GET through the *http.Client TLSClient returns, against one PRNG-chosen listener
			// (quick: for a PRNG-chosen tenth of the points, thorough: for every point of the projection)
			gsk := serverKinds[rg.Intn(len(serverKinds))]
			greject := p.Callback != "" && rg.Intn(2) == 0
			m.Note("https_get_points_in_projection", 1)
			if !m.Quick() || rg.Intn(10) == 0 {
				did = true
				m.Begin(&Case{Point: &p, Server: gsk, Reject: greject, Via: "TLSClient"})
				w.handshake(p, gsk, greject, "TLSClient")
				m.NT(fmt.Sprintf("get|%d|%s|%v", idx, gsk, greject))
			}
			if did {
				batch = 0 // re-mark the inspection batch after a handshake marker
			}
		}
	}
}

// materialBase is the directory, created and owned by the monitor, under which every worker makes its private
// directory of key and certificate files.
func materialBase(m *mon.M) string {
	if m.OutDir == "" {
		return ""
	}
	return filepath.Join(m.OutDir, "run", "c18-material")
}

// harnessFailed records a failure of the harness itself (no space for the files, no free port, no descriptor): it says
// nothing about the library. The worker evaluates nothing more, so that the merged run stays below the coverage floor
// (= the whole lattice) and is reported INCONCLUSIVE; it is never a violation.
func harnessFailed(m *mon.M, what string, err error) {
	m.Note(what, 1)
	fmt.Fprintf(os.Stderr, "C18: %s: %v: nothing is evaluated, the run is inconclusive\n", what, err)
}

func run(m *mon.M) {
	mat, err := mint(materialBase(m))
	if err != nil {
		harnessFailed(m, "harness_mint_failed", err)
		return
	}
	defer os.Remove(materialBase(m)) // only when the last worker leaves it empty
	defer os.RemoveAll(mat.dir)
	if sysPinned {
		m.Note("system_pool_pinned", 1)
	} else {
		// Without a pinned store "the system pool" is an unknown set (on a host whose real store is empty a
		// system-derived pool even compares equal to an empty one): nothing can be judged soundly. The worker
		// evaluates NOTHING, so that the merged run stays below the coverage floor (= the whole lattice) and is
		// reported INCONCLUSIVE instead of "held".
		m.Note("system_pool_not_pinned", 1)
		fmt.Fprintln(os.Stderr, "C18: the system root store could not be pinned (SSL_CERT_FILE/SSL_CERT_DIR had no effect): nothing is evaluated, the run is inconclusive")
		return
	}
	w := &worker{m: m, mat: mat}
	defer w.stopServers()
	if err := w.startServers(); err != nil {
		harnessFailed(m, "harness_listen_failed", err)
		return
	}
	if !w.legacyOK {
		// The downgrade probe ("never negotiates below TLS 1.2", seen at a TLS <= 1.1-only peer) would be vacuous without
		// the run saying so: like for the system-pool pin, the worker evaluates NOTHING, the merged run stays below the
		// coverage floor and is reported INCONCLUSIVE instead of "held".
		fmt.Fprintln(os.Stderr, "C18: a hand-made TLS 1.0/1.1 client could not complete a handshake with the legacy listener (the toolchain no longer speaks TLS <= 1.1?): nothing is evaluated, the run is inconclusive")
		return
	}
	step := m.NShards
	if step <= 0 {
		step = 1
	}
	w.sweep(m.Shard, latticeSize(), step, true)
	w.nameVariantsWorkload(m.Shard, step)
	w.encodingsWorkload(m.Shard, step)
	w.rootKindsWorkload(m.Shard, step)
	w.shapesWorkload(m.Shard, step)
	w.rotationWorkload(m.Shard, step)
	w.sizesWorkload(m.Shard, step)
}

// encodingsWorkload inspects every point of the material-encodings sub-workload through the three entry points and
// runs, where CA one is trusted and a configuration is returned, one handshake per route against listener s1, which
// records the whole chain the client presents.
func (w *worker) encodingsWorkload(shard, step int) {
	m := w.m
	for i, p := range encodingPoints() {
		if i%step != shard {
			continue
		}
		p := p
		m.Begin(&Case{Point: &p, Encoding: true})
		ok := w.inspectPoint(p, "TLSClientAuth")
		w.inspectPoint(p, "TLSTransport")
		w.inspectPoint(p, "TLSClient")
		m.NT(fmt.Sprintf("encoding|%s+%s|%d", p.CertFile, p.KeyFile, i))
		m.Class("material-encoding:" + p.CertFile + "+" + p.KeyFile)
		if ok && p.LoadedCA == "ca1" {
			for _, via := range []string{"", "TLSClient"} {
				m.Begin(&Case{Point: &p, Server: "s1", Via: via, Encoding: true})
				w.handshake(p, "s1", false, via)
				m.NT(fmt.Sprintf("encoding-hs|%s+%s|%d|%s", p.CertFile, p.KeyFile, i, via))
			}
		}
	}
}

// nameVariantsWorkload inspects every (name variant x insecure x identity x roots) point through the three
// entry points and runs, for the points that trust CA one, one handshake per route against listener s1
// (alpha.test + 127.0.0.1, signed by CA one): 192 points in all, shared out over the workers. It runs after
// the lattice sweep.
func (w *worker) nameVariantsWorkload(shard, step int) {
	m := w.m
	for i, p := range variantPoints() {
		if i%step != shard {
			continue
		}
		p := p
		m.Begin(&Case{Point: &p, NameVariant: true})
		ok := w.inspectPoint(p, "TLSClientAuth")
		w.inspectPoint(p, "TLSTransport")
		w.inspectPoint(p, "TLSClient")
		m.NT(fmt.Sprintf("name-variant|%s|%d", p.ServerName, i))
		m.Class("name-variant:" + nameClass(p.ServerName))
		if ok && p.LoadedCA == "ca1" {
			for _, via := range []string{"", "TLSClient"} {
				m.Begin(&Case{Point: &p, Server: "s1", Via: via, NameVariant: true})
				w.handshake(p, "s1", false, via)
				m.NT(fmt.Sprintf("name-variant-hs|%s|%d|%s", p.ServerName, i, via))
			}
		}
	}
}

func replay(m *mon.M, raw json.RawMessage) {
	var c Case
	if err := json.Unmarshal(raw, &c); err != nil {
		m.Violate("bad-replay-case", err.Error(), nil)
		return
	}
	mat, err := mint(materialBase(m))
	if err != nil {
		harnessFailed(m, "harness_mint_failed", err) // nothing is evaluated: the replay reports evaluations=0
		return
	}
	defer os.Remove(materialBase(m))
	defer os.RemoveAll(mat.dir)
	if !sysPinned {
		m.Note("system_pool_not_pinned", 1) // nothing is evaluated: the replay reports evaluations=0
		return
	}
	w := &worker{m: m, mat: mat}
	switch {
	case c.Rotation != nil:
		w.runRotation(*c.Rotation)
	case c.Range != nil:
		step := c.Range.Step
		if step <= 0 {
			step = 1
		}
		to := c.Range.To
		if to > latticeSize() {
			to = latticeSize()
		}
		w.sweep(c.Range.From, to, step, false)
	case c.Point != nil:
		probe := *c.Point
		if c.NameVariant {
			probe.ServerName = "" // free text in the server-name sub-workload; the other slots are lattice values
		}
		if c.Encoding || isEncodingFile(probe.CertFile) || isEncodingFile(probe.KeyFile) {
			// files of the material-encodings sub-workload stand outside the lattice; the other slots are lattice values
			if isEncodingFile(probe.CertFile) {
				probe.CertFile = ""
			}
			if isEncodingFile(probe.KeyFile) {
				probe.KeyFile = ""
			}
		}
		// roots of the root-kinds sub-workload and values of the loaded-material-shapes sub-workload stand outside the lattice too
		if isRootKindValue(probe.LoadedCA) {
			probe.LoadedCA = ""
		}
		if isRootKindValue(probe.CAFile) {
			probe.CAFile = ""
		}
		if isRootKindValue(probe.Pool) {
			probe.Pool = ""
		}
		if shapeOf(probe.LoadedKey) != "" || probe.LoadedKey == "ec384" {
			probe.LoadedKey = ""
		}
		if probe.LoadedCert == "zero" || isAlgCert(probe.LoadedCert) {
			probe.LoadedCert = ""
		}
		// files of the material-sizes sub-workload stand outside the lattice; they are built now and removed at the end
		if isSized(probe.CertFile) {
			probe.CertFile = ""
		}
		if isSized(probe.KeyFile) {
			probe.KeyFile = ""
		}
		if isSized(probe.CAFile) {
			probe.CAFile = ""
		}
		if indexOf(probe) < 0 {
			m.Violate("bad-replay-case", "the point names a slot content that is not part of the lattice", nil)
			return
		}
		cleanup, serr := mat.materialise(*c.Point)
		if serr != nil {
			harnessFailed(m, "harness_sized_file_failed", serr) // nothing is evaluated: the replay reports evaluations=0
			return
		}
		defer cleanup()
		if c.Server == "" {
			entry := c.Entry
			if entry == "" {
				entry = "TLSClientAuth"
			}
			w.inspectPoint(*c.Point, entry)
			return
		}
		defer w.stopServers()
		if err := w.startServers(); err != nil {
			harnessFailed(m, "harness_listen_failed", err) // nothing is evaluated: the replay reports evaluations=0
			return
		}
		w.handshake(*c.Point, c.Server, c.Reject, c.Via)
	default:
		m.Violate("bad-replay-case", "neither point nor range", nil)
	}
}
