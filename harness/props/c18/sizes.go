package c18

// Sub-workload added in the fourth strengthening round: MATERIAL SIZES. It is not a lattice dimension: the certificate,
// key and CA FILE slots are filled with files that hold the same usable material as the lattice's files, but whose size
// lies just below, exactly at and just above 4 KiB, 32 KiB, 64 KiB and 1 MiB. The size is reached
//
//   - certs: (CA files only) with further valid root certificates, i.e. a large bundle: every certificate of the file is
//     a supplied root, wherever it stands;
//   - text:  with explanatory text lines outside the PEM blocks (what `openssl x509 -text`, a PKCS#12 export or a
//     hand-kept bundle of corporate roots put there);
//   - blank: with blank lines outside the PEM blocks,
//
// and the needed block (the root that certifies listener s1, the client certificate, the client key) stands FIRST or
// LAST in the file. The table row owed is the row of the plain file: "trusts exactly the supplied roots", "presents
// exactly the supplied client certificate" hold whatever the size of the file the material came in.
//
// A sized file is named, in the Point, base~pad~size~pos (e.g. "ca1~certs~64k+~last", "ec~text~1m=~first"): size is a
// boundary (4k | 32k | 64k | 1m) followed by - (text/blank: one byte less; certs: the largest bundle not above it),
// = (text/blank only: exactly) or + (above it by half a PEM block, so that the boundary falls INSIDE the block that stands
// last - one byte more would only push the final newline over it; certs: the smallest bundle that reaches that size). The
// file is built, deterministically for the worker's material, right before the point is evaluated and removed afterwards.
//
// Added in the tenth round: FOREIGN PEM BLOCKS in the CA file. A PEM file may hold blocks of any type (RFC 7468); a CA
// file that also holds a CRL, a private key, EC parameters, a certificate request, an OpenSSL TRUSTED CERTIFICATE, an
// encrypted legacy key (a block with headers) or a block of a type nobody knows still supplies every CERTIFICATE block
// it holds as a root, wherever those stand relative to the other blocks. Two shapes:
//
//   - foreign: a padding kind of the sized CA files (ca1~foreign~64k+~last): the bundle of filler roots with one
//     foreign block (the kinds in turn) in front of every filler root;
//   - small files ca1~blk-<kind>~small~<layout>: layout is the order of the blocks, R = the root that certifies
//     listener s1, f = a filler root, X = the foreign block (kind "all": one block of every kind where X stands).
//
// The roots owed are the certificates the monitor wrote as CERTIFICATE blocks. The TRUSTED CERTIFICATE block wraps a
// certificate that the same file also holds as a CERTIFICATE block (CA one), so that a reader that understands OpenSSL's
// format and one that skips the block owe the same pool.

import (
	"bytes"
	"crypto/ecdsa"
	"crypto/elliptic"
	"crypto/rand"
	"crypto/x509"
	"encoding/pem"
	"fmt"
	"math/big"
	"os"
	"path/filepath"
	"strings"
)

type sizedSpec struct {
	base  string // ca: ca1 | crt, key: ec | rsa
	pad   string // certs | text | blank
	bound string // 4k | 32k | 64k | 1m
	rel   string // - | = | +
	pos   string // first | last: where the needed block stands
	// small CA files with foreign PEM blocks (bound, rel and pos are empty): ca1~blk-<kind>~small~<layout>
	kind   string // a foreign block kind, or "all"
	layout string // order of the blocks: R = CA one, f = a filler root, X = the foreign block(s)
}

// foreignKinds are the PEM blocks that are no CERTIFICATE which a CA file may hold besides its roots.
var foreignKinds = []string{"crl", "ecparams", "key", "eckey", "csr", "trusted", "unknown", "headers"}

// mixLayouts: the foreign block before, between and after the roots, and around every one of them.
var mixLayouts = []string{"XRf", "RXf", "fXR", "RfX", "XfXRX"}

func isForeignKind(k string) bool {
	if k == "all" {
		return true
	}
	for _, f := range foreignKinds {
		if f == k {
			return true
		}
	}
	return false
}

func isMixLayout(l string) bool {
	for _, k := range mixLayouts {
		if k == l {
			return true
		}
	}
	return false
}

// rootFollows: does a CERTIFICATE block stand after a foreign block of the layout?
func rootFollows(layout string) bool {
	i := strings.Index(layout, "X")
	return i >= 0 && strings.ContainsAny(layout[i:], "Rf")
}

var sizeBounds = []struct {
	token, label string
	bytes        int
}{{"4k", "4KiB", 4 << 10}, {"32k", "32KiB", 32 << 10}, {"64k", "64KiB", 64 << 10}, {"1m", "1MiB", 1 << 20}}

func boundOf(token string) (label string, n int, ok bool) {
	for _, b := range sizeBounds {
		if b.token == token {
			return b.label, b.bytes, true
		}
	}
	return "", 0, false
}

func parseSized(name string) (s sizedSpec, ok bool) {
	parts := strings.Split(name, "~")
	if len(parts) != 4 || len(parts[2]) < 2 {
		return s, false
	}
	if parts[2] == "small" {
		s = sizedSpec{base: parts[0], pad: parts[1], kind: strings.TrimPrefix(parts[1], "blk-"), layout: parts[3]}
		if s.base != "ca1" || !strings.HasPrefix(parts[1], "blk-") || !isForeignKind(s.kind) || !isMixLayout(s.layout) {
			return s, false
		}
		return s, true
	}
	s = sizedSpec{base: parts[0], pad: parts[1], bound: parts[2][:len(parts[2])-1], rel: parts[2][len(parts[2])-1:], pos: parts[3]}
	if _, _, known := boundOf(s.bound); !known {
		return s, false
	}
	switch s.base {
	case "ca1", "ec", "rsa":
	default:
		return s, false
	}
	switch s.pad {
	case "certs", "foreign":
		if s.rel == "=" || s.base != "ca1" {
			return s, false
		}
	case "text", "blank":
	default:
		return s, false
	}
	if s.rel != "-" && s.rel != "=" && s.rel != "+" {
		return s, false
	}
	if s.pos != "first" && s.pos != "last" {
		return s, false
	}
	return s, true
}

func (s sizedSpec) name() string {
	if s.layout != "" {
		return s.base + "~blk-" + s.kind + "~small~" + s.layout
	}
	return s.base + "~" + s.pad + "~" + s.bound + s.rel + "~" + s.pos
}

func isSized(name string) bool { _, ok := parseSized(name); return ok }

func usesSized(p Point) bool { return isSized(p.CertFile) || isSized(p.KeyFile) || isSized(p.CAFile) }

// sizeFeature is the input feature class of a sized file: on which side of which boundary its size lies.
func (s sizedSpec) sizeFeature() string {
	if s.layout != "" {
		// a small file: which foreign block, and whether a root stands after it
		if rootFollows(s.layout) {
			return "foreign-pem-block:" + s.kind + ":root-follows"
		}
		return "foreign-pem-block:" + s.kind + ":no-root-follows"
	}
	label, _, _ := boundOf(s.bound)
	f := "file-upto-" + label
	if s.rel == "+" {
		f = "file-over-" + label
	}
	if s.pad == "foreign" {
		f += "+foreign-pem-blocks"
	}
	return f
}

// slotClass names a file slot's content in a signature: the lattice's names stand for themselves, a sized file is its
// material plus the size feature (padding and position are in the detail and in the replay case).
func slotClass(name string) string {
	if s, ok := parseSized(name); ok {
		return s.base + "," + s.sizeFeature()
	}
	return name
}

// sizedKind is the size feature of a file slot alone ("" for the lattice's files).
func sizedKind(name string) string {
	if s, ok := parseSized(name); ok {
		return "(" + s.sizeFeature() + ")"
	}
	return ""
}

// sizedPoints: every (boundary, side, padding, position) for the CA file (alone; the files above a boundary with the
// needed root last also appended to a loaded pool), and for the certificate file and the key file of the EC pair (the
// other file plain, CA one loaded so that a handshake shows the identity); the RSA pair above each boundary.
func sizedPoints() []Point {
	var out []Point
	for _, b := range sizeBounds {
		for _, pad := range []string{"certs", "text", "blank", "foreign"} {
			for _, rel := range []string{"-", "=", "+"} {
				if (pad == "certs" || pad == "foreign") && rel == "=" {
					continue
				}
				for _, pos := range []string{"first", "last"} {
					n := sizedSpec{base: "ca1", pad: pad, bound: b.token, rel: rel, pos: pos}.name()
					out = append(out, Point{CAFile: n})
					if rel == "+" && pos == "last" {
						out = append(out, Point{CAFile: n, Pool: "ca2"})
					}
				}
			}
		}
		for _, pad := range []string{"text", "blank"} {
			for _, rel := range []string{"-", "=", "+"} {
				for _, pos := range []string{"first", "last"} {
					n := sizedSpec{base: "ec", pad: pad, bound: b.token, rel: rel, pos: pos}.name()
					out = append(out, Point{CertFile: n, KeyFile: "ec", LoadedCA: "ca1"}, Point{CertFile: "ec", KeyFile: n, LoadedCA: "ca1"})
				}
			}
			n := sizedSpec{base: "rsa", pad: pad, bound: b.token, rel: "+", pos: "last"}.name()
			nf := sizedSpec{base: "rsa", pad: pad, bound: b.token, rel: "+", pos: "first"}.name()
			out = append(out, Point{CertFile: n, KeyFile: "rsa", LoadedCA: "ca1"}, Point{CertFile: "rsa", KeyFile: n, LoadedCA: "ca1"},
				Point{CertFile: n, KeyFile: nf, LoadedCA: "ca1"}) // the last one: both files sized
		}
	}
	// small CA files that hold foreign PEM blocks before, between and after their roots (alone; the layout with a filler
	// root, the foreign block and then the needed root also appended to a loaded pool)
	for _, kind := range append(append([]string{}, foreignKinds...), "all") {
		for _, layout := range mixLayouts {
			n := sizedSpec{base: "ca1", kind: kind, layout: layout}.name()
			out = append(out, Point{CAFile: n})
			if layout == "fXR" {
				out = append(out, Point{CAFile: n, Pool: "ca2"})
			}
		}
	}
	return out
}

// ---- building the files ---------------------------------------------------------------------------------------------------

// filler returns the i-th filler root: minted once per worker (one ECDSA P-256 key for all of them), kept and reused.
func (mt *material) filler(i int) (*x509.Certificate, []byte, error) {
	if mt.fillerKey == nil {
		k, err := ecdsa.GenerateKey(elliptic.P256(), rand.Reader)
		if err != nil {
			return nil, nil, err
		}
		mt.fillerKey = k
	}
	for len(mt.fillers) <= i {
		t := template(fmt.Sprintf("verif filler root %05d", len(mt.fillers)))
		t.IsCA, t.BasicConstraintsValid, t.KeyUsage = true, true, x509.KeyUsageCertSign|x509.KeyUsageDigitalSignature
		der, err := x509.CreateCertificate(rand.Reader, t, t, &mt.fillerKey.PublicKey, mt.fillerKey)
		if err != nil {
			return nil, nil, err
		}
		c, err := x509.ParseCertificate(der)
		if err != nil {
			return nil, nil, err
		}
		mt.fillers = append(mt.fillers, c)
		mt.fillerPEM = append(mt.fillerPEM, pem.EncodeToMemory(&pem.Block{Type: "CERTIFICATE", Bytes: der}))
	}
	return mt.fillers[i], mt.fillerPEM[i], nil
}

// foreignBlock returns a PEM block that is no CERTIFICATE, of the given kind; built once per worker.
func (mt *material) foreignBlock(kind string) ([]byte, error) {
	if b, ok := mt.foreign[kind]; ok {
		return b, nil
	}
	filling := func(n int, salt byte) []byte { // fixed bytes that are no DER of anything
		out := make([]byte, n)
		for i := range out {
			out[i] = byte(i*7) ^ salt
		}
		return out
	}
	var blk *pem.Block
	switch kind {
	case "crl":
		k, err := ecdsa.GenerateKey(elliptic.P256(), rand.Reader)
		if err != nil {
			return nil, err
		}
		t := template("verif crl issuer")
		t.IsCA, t.BasicConstraintsValid, t.KeyUsage = true, true, x509.KeyUsageCertSign|x509.KeyUsageCRLSign
		t.SubjectKeyId = []byte{1, 2, 3, 4}
		der, err := x509.CreateCertificate(rand.Reader, t, t, &k.PublicKey, k)
		if err != nil {
			return nil, err
		}
		issuer, err := x509.ParseCertificate(der)
		if err != nil {
			return nil, err
		}
		crl, err := x509.CreateRevocationList(rand.Reader, &x509.RevocationList{Number: big.NewInt(1), ThisUpdate: t.NotBefore, NextUpdate: t.NotAfter}, issuer, k)
		if err != nil {
			return nil, err
		}
		blk = &pem.Block{Type: "X509 CRL", Bytes: crl}
	case "ecparams":
		blk = &pem.Block{Type: "EC PARAMETERS", Bytes: []byte{0x06, 0x08, 0x2a, 0x86, 0x48, 0xce, 0x3d, 0x03, 0x01, 0x07}} // prime256v1
	case "key", "eckey", "csr":
		k, err := ecdsa.GenerateKey(elliptic.P256(), rand.Reader) // a key of its own: no key of the monitor's certificates
		if err != nil {
			return nil, err
		}
		switch kind {
		case "key":
			der, err := x509.MarshalPKCS8PrivateKey(k)
			if err != nil {
				return nil, err
			}
			blk = &pem.Block{Type: "PRIVATE KEY", Bytes: der}
		case "eckey":
			der, err := x509.MarshalECPrivateKey(k)
			if err != nil {
				return nil, err
			}
			blk = &pem.Block{Type: "EC PRIVATE KEY", Bytes: der}
		default:
			der, err := x509.CreateCertificateRequest(rand.Reader, &x509.CertificateRequest{Subject: template("verif request").Subject}, k)
			if err != nil {
				return nil, err
			}
			blk = &pem.Block{Type: "CERTIFICATE REQUEST", Bytes: der}
		}
	case "trusted":
		// OpenSSL's format: the certificate followed by its trust settings (here: trusted for serverAuth). The certificate
		// is CA one, which every file that holds this block also holds as a CERTIFICATE block.
		aux := []byte{0x30, 0x0c, 0x30, 0x0a, 0x06, 0x08, 0x2b, 0x06, 0x01, 0x05, 0x05, 0x07, 0x03, 0x01}
		blk = &pem.Block{Type: "TRUSTED CERTIFICATE", Bytes: append(append([]byte{}, mt.ca1.Raw...), aux...)}
	case "unknown":
		blk = &pem.Block{Type: "VERIF OBJECT OF NO KNOWN TYPE", Bytes: filling(96, 0x5a)}
	case "headers":
		blk = &pem.Block{Type: "RSA PRIVATE KEY", Headers: map[string]string{"Proc-Type": "4,ENCRYPTED", "DEK-Info": "AES-256-CBC,0F1E2D3C4B5A69788796A5B4C3D2E1F0"}, Bytes: filling(208, 0xa5)}
	default:
		return nil, fmt.Errorf("c18: unknown foreign PEM block kind %q", kind)
	}
	b := pem.EncodeToMemory(blk)
	if b == nil {
		return nil, fmt.Errorf("c18: the foreign PEM block %q cannot be encoded", kind)
	}
	if mt.foreign == nil {
		mt.foreign = map[string][]byte{}
	}
	mt.foreign[kind] = b
	return b, nil
}

// textPadding is n bytes that are no part of any PEM block: explanatory text lines or blank lines; it ends in a newline.
func textPadding(n int, pad string) []byte {
	if n <= 0 {
		return nil
	}
	if pad == "blank" {
		return bytes.Repeat([]byte("\n"), n)
	}
	const line = "# verif c18: explanatory text outside of the PEM blocks ......\n"
	out := make([]byte, 0, n)
	for len(out)+len(line) <= n {
		out = append(out, line...)
	}
	if r := n - len(out); r > 0 {
		out = append(out, bytes.Repeat([]byte("#"), r-1)...)
		out = append(out, '\n')
	}
	return out
}

// buildSized assembles the bytes of a sized file and, for a CA file, the certificates it holds (all of them are
// supplied roots).
func (mt *material) buildSized(s sizedSpec, kind string) (data []byte, roots []*x509.Certificate, err error) {
	var needed []byte
	switch {
	case kind == "ca" && s.base == "ca1":
		needed, roots = mt.ca1PEM, []*x509.Certificate{mt.ca1}
	case (kind == "crt" || kind == "key") && (s.base == "ec" || s.base == "rsa"):
		needed = mt.content[mt.files[s.base+"."+kind]]
	}
	if len(needed) == 0 {
		return nil, nil, fmt.Errorf("c18: no %s material for sized file %s", kind, s.name())
	}
	if s.layout != "" {
		if kind != "ca" {
			return nil, nil, fmt.Errorf("c18: only a CA file holds foreign PEM blocks: %s", s.name())
		}
		roots = nil
		nf := 0
		for _, b := range s.layout {
			switch b {
			case 'R':
				data = append(data, mt.ca1PEM...)
				roots = append(roots, mt.ca1)
			case 'f':
				c, p, ferr := mt.filler(nf)
				if ferr != nil {
					return nil, nil, ferr
				}
				nf++
				data = append(data, p...)
				roots = append(roots, c)
			case 'X':
				kinds := []string{s.kind}
				if s.kind == "all" {
					kinds = foreignKinds
				}
				for _, k := range kinds {
					fb, ferr := mt.foreignBlock(k)
					if ferr != nil {
						return nil, nil, ferr
					}
					data = append(data, fb...)
				}
			}
		}
		return data, roots, nil
	}
	_, bound, _ := boundOf(s.bound)
	var padBytes []byte
	if s.pad == "foreign" {
		if kind != "ca" {
			return nil, nil, fmt.Errorf("c18: only a CA file is padded with foreign PEM blocks: %s", s.name())
		}
		// the bundle of filler roots, one foreign block (the kinds in turn) in front of every one of them
		total := len(needed)
		for i := 0; ; i++ {
			c, p, ferr := mt.filler(i)
			if ferr != nil {
				return nil, nil, ferr
			}
			fb, ferr := mt.foreignBlock(foreignKinds[i%len(foreignKinds)])
			if ferr != nil {
				return nil, nil, ferr
			}
			if s.rel == "-" && total+len(fb)+len(p) > bound {
				break
			}
			padBytes = append(append(padBytes, fb...), p...)
			roots = append(roots, c)
			total += len(fb) + len(p)
			if s.rel == "+" && total >= bound+len(needed)/2 {
				break
			}
		}
	} else if s.pad == "certs" {
		if kind != "ca" {
			return nil, nil, fmt.Errorf("c18: only a CA file is padded with certificates: %s", s.name())
		}
		total := len(needed)
		for i := 0; ; i++ {
			c, p, ferr := mt.filler(i)
			if ferr != nil {
				return nil, nil, ferr
			}
			if s.rel == "-" && total+len(p) > bound {
				break
			}
			padBytes = append(padBytes, p...)
			roots = append(roots, c)
			total += len(p)
			if s.rel == "+" && total >= bound+len(needed)/2 {
				break
			}
		}
	} else {
		target := bound
		switch s.rel {
		case "-":
			target--
		case "+":
			// the boundary falls in the middle of the block that stands last: one byte more would only push the final
			// newline of the file over it
			target += len(needed) / 2
		}
		if target < len(needed) {
			return nil, nil, fmt.Errorf("c18: the %s material (%d bytes) does not fit the sized file %s", kind, len(needed), s.name())
		}
		padBytes = textPadding(target-len(needed), s.pad)
	}
	if s.pos == "last" {
		data = append(append(make([]byte, 0, len(padBytes)+len(needed)), padBytes...), needed...)
	} else {
		data = append(append(make([]byte, 0, len(padBytes)+len(needed)), needed...), padBytes...)
	}
	return data, roots, nil
}

// materialise writes the sized files the point names (nothing for a point without any) and returns the function that
// removes them again. An error is a failure of the harness.
func (mt *material) materialise(p Point) (cleanup func(), err error) {
	var made []string // keys of mt.files
	cleanup = func() {
		for _, key := range made {
			path := mt.files[key]
			delete(mt.files, key)
			delete(mt.content, path)
			_ = os.Remove(path)
			if strings.HasSuffix(key, ".ca") {
				delete(mt.sizedRoots, strings.TrimSuffix(key, ".ca"))
			}
		}
	}
	for _, slot := range [][2]string{{p.CertFile, "crt"}, {p.KeyFile, "key"}, {p.CAFile, "ca"}} {
		name, kind := slot[0], slot[1]
		s, ok := parseSized(name)
		if !ok {
			continue
		}
		key := name + "." + kind
		if _, have := mt.files[key]; have {
			continue
		}
		data, roots, berr := mt.buildSized(s, kind)
		if berr != nil {
			cleanup()
			return func() {}, berr
		}
		mt.sizedSeq++
		path := filepath.Join(mt.dir, fmt.Sprintf("sized-%d.%s", mt.sizedSeq, kind))
		if werr := os.WriteFile(path, data, 0o600); werr != nil {
			cleanup()
			return func() {}, werr
		}
		mt.files[key] = path
		mt.content[path] = data
		made = append(made, key)
		if kind == "ca" {
			if mt.sizedRoots == nil {
				mt.sizedRoots = map[string][]*x509.Certificate{}
			}
			mt.sizedRoots[name] = roots
		}
	}
	return cleanup, nil
}

// describeSized says, for the detail of a finding, what the sized files of the point look like.
func describeSized(p Point, mat *material) string {
	var parts []string
	for _, slot := range [][3]string{{p.CertFile, "crt", "certificate file"}, {p.KeyFile, "key", "key file"}, {p.CAFile, "ca", "CA file"}} {
		s, ok := parseSized(slot[0])
		if !ok {
			continue
		}
		d := fmt.Sprintf("%s: %d bytes", slot[2], len(mat.content[mat.files[slot[0]+"."+slot[1]]]))
		if s.layout != "" {
			d += fmt.Sprintf(", %d CERTIFICATE blocks and foreign PEM block(s) of kind %s in the order %s (R = the root that certifies listener s1, f = another root, X = foreign)", len(mat.sizedRoots[slot[0]]), s.kind, s.layout)
			parts = append(parts, d)
			continue
		}
		switch s.pad {
		case "foreign":
			d += fmt.Sprintf(", a bundle of %d certificates with a PEM block that is no CERTIFICATE (CRL, key, parameters, ...) in front of every one but the needed root", len(mat.sizedRoots[slot[0]]))
		case "certs":
			d += fmt.Sprintf(", a bundle of %d certificates", len(mat.sizedRoots[slot[0]]))
		case "text":
			d += ", with explanatory text lines outside the PEM block"
		case "blank":
			d += ", with blank lines outside the PEM block"
		}
		d += ", the needed " + map[string]string{"crt": "certificate", "key": "key", "ca": "root (CA one)"}[slot[1]] + " stands " + s.pos
		parts = append(parts, d)
	}
	if len(parts) == 0 {
		return ""
	}
	return " [" + strings.Join(parts, "; ") + "]"
}

// ---- the workload -----------------------------------------------------------------------------------------------------------

// sizesWorkload inspects every point of the sub-workload through the three entry points and runs handshakes by either
// route against s1 (certified by CA one, which every point trusts: the listener records the identity presented); the
// points that supply their roots by CA file alone are also shown s0 (certified by the system root: must be refused).
func (w *worker) sizesWorkload(shard, step int) {
	m := w.m
	for i, p := range sizedPoints() {
		if i%step != shard || w.aborted {
			continue
		}
		p := p
		cleanup, err := w.mat.materialise(p)
		if err != nil {
			w.aborted = true
			harnessFailed(m, "harness_sized_file_failed", err)
			return
		}
		func() {
			defer cleanup()
			m.Begin(&Case{Point: &p, Sized: true})
			ok := w.inspectPoint(p, "TLSClientAuth")
			w.inspectPoint(p, "TLSTransport")
			w.inspectPoint(p, "TLSClient")
			m.NT(fmt.Sprintf("sized|%s|%s|%s|%s", p.CertFile, p.KeyFile, p.CAFile, p.Pool))
			for _, n := range []string{p.CertFile, p.KeyFile, p.CAFile} {
				if s, is := parseSized(n); is {
					m.Class("sized-file:" + s.pad + ":" + s.sizeFeature())
				}
			}
			if !ok {
				return
			}
			for _, via := range []string{"", "TLSClient"} {
				m.Begin(&Case{Point: &p, Server: "s1", Via: via, Sized: true})
				w.handshake(p, "s1", false, via)
				m.NT(fmt.Sprintf("sized-hs|%d|s1|%s", i, via))
			}
			if p.LoadedCA == "" {
				m.Begin(&Case{Point: &p, Server: "s0", Sized: true})
				w.handshake(p, "s0", false, "")
				m.NT(fmt.Sprintf("sized-hs|%d|s0|", i))
			}
		}()
	}
}
