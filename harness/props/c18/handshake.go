package c18

import (
	"bufio"
	"bytes"
	"context"
	"crypto/tls"
	"crypto/x509"
	"errors"
	"fmt"
	"io"
	"net"
	"net/http"
	"os"
	"strings"
	"time"

	"github.com/go-openapi/runtime/client"

	"verif/mon"
)

const hsWatchdog = 15 * time.Second

type hsRecord struct {
	err     error
	version uint16
	peer    [][]byte
}

// server is one loopback TLS listener that requests (but does not verify) a client certificate
// and records what each handshake negotiated and what the client presented.
type server struct {
	kind string
	ln   net.Listener
	addr string
	recs chan hsRecord
	leaf *x509.Certificate
}

func (w *worker) serverConfig(kind string) (*tls.Config, *x509.Certificate) {
	switch kind {
	case "s0":
		return &tls.Config{Certificates: []tls.Certificate{w.mat.srv0}, ClientAuth: tls.RequestClientCert, MinVersion: tls.VersionTLS10}, w.mat.srv0Leaf
	case "s3":
		// the pinned self-signed server certificate of the root-kinds sub-workload
		return &tls.Config{Certificates: []tls.Certificate{w.mat.pinned}, ClientAuth: tls.RequestClientCert, MinVersion: tls.VersionTLS10}, w.mat.pinnedCert
	case "s2":
		return &tls.Config{Certificates: []tls.Certificate{w.mat.srv2}, ClientAuth: tls.RequestClientCert, MinVersion: tls.VersionTLS10}, w.mat.srv2Leaf
	case "legacy":
		return &tls.Config{Certificates: []tls.Certificate{w.mat.srv1}, ClientAuth: tls.RequestClientCert, MinVersion: tls.VersionTLS10, MaxVersion: tls.VersionTLS11,
			CipherSuites: []uint16{tls.TLS_ECDHE_ECDSA_WITH_AES_128_CBC_SHA, tls.TLS_ECDHE_ECDSA_WITH_AES_256_CBC_SHA}}, w.mat.srv1Leaf
	default:
		return &tls.Config{Certificates: []tls.Certificate{w.mat.srv1}, ClientAuth: tls.RequestClientCert, MinVersion: tls.VersionTLS10}, w.mat.srv1Leaf
	}
}

func (w *worker) startServer(kind string) error {
	cfg, leaf := w.serverConfig(kind)
	ln, err := tls.Listen("tcp", "127.0.0.1:0", cfg)
	if err != nil {
		return err
	}
	s := &server{kind: kind, ln: ln, addr: ln.Addr().String(), recs: make(chan hsRecord, 16), leaf: leaf}
	go func() {
		for {
			c, err := ln.Accept()
			if err != nil {
				return
			}
			tc := c.(*tls.Conn)
			_ = tc.SetDeadline(time.Now().Add(hsWatchdog))
			var rec hsRecord
			rec.err = tc.Handshake()
			if rec.err == nil {
				st := tc.ConnectionState()
				rec.version = st.Version
				for _, pc := range st.PeerCertificates {
					rec.peer = append(rec.peer, pc.Raw)
				}
				// a client that speaks HTTP over the connection (the *http.Client of TLSClient) gets one minimal
				// answer; tls.Dial clients have closed by now and the read ends at once
				if req, rerr := http.ReadRequest(bufio.NewReader(tc)); rerr == nil {
					_, _ = io.WriteString(tc, "HTTP/1.1 204 No Content\r\nConnection: close\r\n\r\n")
					_ = req.Body.Close()
				}
			}
			_ = tc.Close()
			s.recs <- rec
		}
	}()
	if w.srv == nil {
		w.srv = map[string]*server{}
	}
	w.srv[kind] = s
	return nil
}

func (w *worker) startServers() error {
	for _, k := range append(append([]string{}, serverKinds...), "s3") { // s3 serves the root-kinds sub-workload only
		if err := w.startServer(k); err != nil {
			return err
		}
	}
	// self-check of the harness: a hand-made client that allows TLS 1.0 must be able to complete a
	// handshake with the legacy listener, otherwise the downgrade probe would be vacuous.
	pool := x509.NewCertPool()
	pool.AddCert(w.mat.ca1)
	own := &tls.Config{MinVersion: tls.VersionTLS10, RootCAs: pool, ServerName: "alpha.test"}
	ok, _, st, rec, _ := w.dial(w.srv["legacy"], own)
	if ok && rec != nil && rec.err == nil && st.Version <= tls.VersionTLS11 {
		w.m.Note("legacy_listener_selfcheck_ok", 1)
		w.legacyOK = true
	} else {
		w.m.Note("legacy_listener_selfcheck_failed", 1)
	}
	return nil
}

func (w *worker) stopServers() {
	for _, s := range w.srv {
		_ = s.ln.Close()
	}
	w.srv = nil
}

// dial runs one handshake. rec is nil when the watchdog fired or the TCP connection failed.
func (w *worker) dial(s *server, cfg *tls.Config) (ok bool, cerr error, st tls.ConnectionState, rec *hsRecord, watchdog bool) {
	d := &net.Dialer{Timeout: hsWatchdog}
	conn, err := tls.DialWithDialer(d, "tcp", s.addr, cfg)
	if err == nil {
		st = conn.ConnectionState()
		_ = conn.Close()
		ok = true
	} else {
		cerr = err
		var oe *net.OpError
		if errors.As(err, &oe) && oe.Op == "dial" {
			return false, err, st, nil, true
		}
	}
	select {
	case r := <-s.recs:
		return ok, cerr, st, &r, false
	case <-time.After(hsWatchdog):
		// the listener is out of step: replace it so that a late record cannot be attributed to a later handshake
		_ = s.ln.Close()
		_ = w.startServer(s.kind)
		return ok, cerr, st, nil, true
	}
}

// get runs one HTTPS GET through an *http.Client (as returned by TLSClient) against a listener; the
// outcome has the same shape as dial's.
func (w *worker) get(s *server, hc *http.Client) (ok bool, cerr error, st tls.ConnectionState, rec *hsRecord, watchdog bool) {
	ctx, cancel := context.WithTimeout(context.Background(), hsWatchdog)
	defer cancel()
	req, err := http.NewRequestWithContext(ctx, http.MethodGet, "https://"+s.addr+"/", nil)
	if err != nil {
		return false, err, st, nil, true
	}
	resp, err := hc.Do(req)
	if err == nil {
		if resp.TLS != nil {
			st = *resp.TLS
		}
		_, _ = io.Copy(io.Discard, resp.Body)
		_ = resp.Body.Close()
		ok = true
	} else {
		cerr = err
		var oe *net.OpError
		if errors.As(err, &oe) && oe.Op == "dial" {
			return false, err, st, nil, true
		}
	}
	hc.CloseIdleConnections()
	select {
	case r := <-s.recs:
		return ok, cerr, st, &r, false
	case <-time.After(hsWatchdog):
		_ = s.ln.Close()
		_ = w.startServer(s.kind)
		return ok, cerr, st, nil, true
	}
}

// handshake runs a real handshake for the point against one listener, judges it against the
// expectation computed from the option point alone, and reports (minimised) violations.
// via "" = TLSClientAuth + tls.Dial; via "TLSClient" = an HTTPS GET through the client TLSClient returns.
func (w *worker) handshake(p Point, sk string, reject bool, via string) {
	m := w.m
	if w.aborted {
		return
	}
	fs, classes, judged := w.handshakeAttempt(p, sk, reject, via, 0)
	if len(fs) > 0 && w.materialGone() {
		return
	}
	if judged {
		m.Eval(1)
	}
	for _, k := range classes {
		m.Class(k)
	}
	for _, f := range fs {
		if !w.firstFew(f.sig) {
			m.Violate(f.sig, f.detail, nil) // counted; the harness keeps only the first few witnesses per sig
			continue
		}
		sig, detail := f.sig, f.detail
		mp := minimisePoint(p, func(q Point) bool {
			if reject && q.Callback == "" {
				return false
			}
			qfs, _, _ := w.handshakeAttempt(q, sk, reject, via, 0)
			for _, qf := range qfs {
				if qf.sig == sig {
					detail = qf.detail
					return true
				}
			}
			return false
		})
		c := caseFor(mp)
		c.Server, c.Reject, c.Via = sk, reject, via
		m.Violate(sig, detail, c)
	}
}

// isTimeout recognises the watchdog deadlines of either side (never an oracle input).
func isTimeout(err error) bool {
	if err == nil {
		return false
	}
	var ne net.Error
	return errors.Is(err, context.DeadlineExceeded) || errors.Is(err, os.ErrDeadlineExceeded) || (errors.As(err, &ne) && ne.Timeout())
}

// handshakeAttempt has no side effects on the monitor: it returns findings, outcome classes and
// whether the handshake was judged at all.
func (w *worker) handshakeAttempt(p Point, sk string, reject bool, via string, attempt int) (fs []finding, classes []string, judged bool) {
	s := w.srv[sk]
	if s == nil {
		return []finding{{"bad-replay-case", "unknown listener " + sk}}, nil, false
	}
	if via != "" && via != "TLSClient" {
		return []finding{{"bad-replay-case", "unknown handshake route " + via}}, nil, false
	}
	sfx, pfx, who := "", "hs", ""
	if via != "" {
		sfx, pfx, who = "@"+via, "get", "HTTPS GET through the client of "+via+": "
	}
	violate := func(sig, format string, a ...interface{}) {
		fs = append(fs, finding{sig + sfx, who + fmt.Sprintf(format, a...)})
	}
	class := func(k string) { classes = append(classes, pfx+strings.TrimPrefix(k, "hs")) }
	o, h := build(p, w.mat)
	if reject {
		*h.verdict = errRejected
	}
	var cfg *tls.Config
	var hc *http.Client
	var err error
	if via == "" {
		pv, stk := mon.Catch(func() { cfg, err = client.TLSClientAuth(o) })
		if pv != nil {
			violate("panic/TLSClientAuth", "TLSClientAuth panicked: %v\n%s", pv, stk)
			return
		}
		if err != nil || cfg == nil {
			class("hs:no-config")
			return
		}
	} else {
		pv, stk := mon.Catch(func() { hc, err = client.TLSClient(o) })
		if pv != nil {
			violate("panic/TLSClient", "TLSClient panicked: %v\n%s", pv, stk)
			return
		}
		if err != nil || hc == nil {
			class("hs:no-config")
			return
		}
	}
	e := expect(p)
	if e.idErr || e.rootsErr {
		// a config was returned although an error was owed: that is the inspection's finding; the
		// table defines no handshake outcome for such a point
		class("hs:config-despite-owed-error")
		return
	}
	roots := expectedPool(p, w.mat)
	name := p.ServerName
	if name == "" {
		name = "127.0.0.1" // what tls.Dial (and net/http) fill in from the dialled host
	}
	eku := []x509.ExtKeyUsage{x509.ExtKeyUsageServerAuth}
	_, chainErr := s.leaf.Verify(x509.VerifyOptions{Roots: roots, KeyUsages: eku})
	_, fullErr := s.leaf.Verify(x509.VerifyOptions{Roots: roots, DNSName: name, KeyUsages: eku})
	mode := "verification-on"
	switch {
	case e.insecure:
		mode = "insecure-requested"
	case p.Insecure:
		mode = "insecure-requested+server-name"
	}
	why := ""
	switch {
	case sk == "legacy":
		why = "legacy-version"
	case !e.insecure && chainErr != nil:
		why = "untrusted-root"
	case !e.insecure && fullErr != nil:
		why = "name-mismatch"
	case p.Callback != "" && reject:
		why = "callback-rejects"
	}
	wantOK := why == ""

	before := *h.cbCalls
	var (
		ok       bool
		cerr     error
		st       tls.ConnectionState
		rec      *hsRecord
		watchdog bool
	)
	if via == "" {
		ok, cerr, st, rec, watchdog = w.dial(s, cfg)
	} else {
		ok, cerr, st, rec, watchdog = w.get(s, hc)
	}
	if !watchdog && (isTimeout(cerr) || isTimeout(rec.err)) {
		watchdog = true
	}
	if watchdog && attempt == 0 {
		fs, classes, judged = w.handshakeAttempt(p, sk, reject, via, 1)
		return fs, append(classes, pfx+"-watchdog-retried"), judged
	}
	if watchdog {
		class("hs-watchdog")
		return
	}
	if via != "" && !ok && rec.err == nil {
		// both ends completed the handshake and the failure came afterwards, on the HTTP exchange with the
		// harness's minimal responder: the statement is about the TLS configuration, this is not judged
		class("hs:http-exchange-failed-after-handshake(not judged)")
		return
	}
	judged = true
	cbCalled := *h.cbCalls - before
	switch {
	case ok && !wantOK:
		sig := "hs-accepted-server/" + why + "/" + mode
		if why == "legacy-version" {
			sig = "hs-negotiated-below-tls12"
		}
		violate(sig, "handshake with listener %s succeeded (version %#x) although it must fail: %s; mode %s, roots %s, name %q, chain error: %v, full error: %v",
			sk, st.Version, why, mode, e.rootsClass, name, chainErr, fullErr)
	case !ok && wantOK && attempt < 2:
		// The configuration is deterministic, so a refusal that it causes shows again. One that does not (a reset
		// or a broken pipe on a loaded machine, a listener that was being replaced) is a transient of the harness:
		// it is raised only when a second, independent attempt ends the same way.
		rfs, rclasses, rjudged := w.handshakeAttempt(p, sk, reject, via, 2)
		for _, rf := range rfs {
			if strings.HasPrefix(rf.sig, "hs-refused-valid-server/") {
				return rfs, append(rclasses, pfx+"-refusal-confirmed-by-retry"), rjudged
			}
		}
		return rfs, append(rclasses, pfx+"-refusal-not-reproduced(transient, not judged)"), rjudged
	case !ok && wantOK:
		violate("hs-refused-valid-server/"+mode+"/"+e.rootsKind, "handshake with listener %s failed with %q although the server certificate verifies against the supplied roots (%s) and name %q (server side: %v)",
			sk, cerr, e.rootsClass, name, rec.err)
	case !ok:
		class("hs:" + sk + ":refused:" + why)
	default:
		class("hs:" + sk + ":ok:" + mode)
		if st.Version < tls.VersionTLS12 {
			violate("hs-negotiated-below-tls12", "negotiated version %#x", st.Version)
		}
		if p.Callback != "" && cbCalled == 0 {
			violate("hs-callback-not-invoked", "handshake succeeded without consulting the supplied VerifyPeerCertificate callback")
		}
		if rec.err != nil {
			class("hs:server-side-error-after-client-ok")
			break
		}
		want, wantChain := wantIdentity(e.idWant, w.mat)
		switch {
		case want == nil && len(rec.peer) > 0:
			violate("hs-client-cert-fabricated/"+e.idKind, "the client presented a certificate although none was supplied")
		case want != nil && len(rec.peer) == 0:
			violate("hs-client-cert-not-presented/"+e.idKind, "the client presented no certificate although a usable pair was supplied and the server requested one")
		case want != nil && !bytes.Equal(rec.peer[0], want.Raw):
			violate("hs-client-cert-different/"+e.idKind, "the client presented a certificate that is not the supplied one")
		case want != nil && !sameChain(rec.peer, wantChain):
			violate("hs-client-cert-chain-differs/"+e.idKind, "the client presented %d certificate(s) after the right leaf, the supplied material holds %d", len(rec.peer)-1, len(wantChain)-1)
		case want != nil:
			class("hs:client-cert-presented:" + e.idWant)
		default:
			class("hs:no-client-cert")
		}
	}
	return
}
