package c18

import (
	"os"
	"testing"

	"verif/mon"
)

func TestProf(t *testing.T) {
	m := mon.New("C18", "quick", 1, 0, 16, t.TempDir())
	mat, err := mint()
	if err != nil {
		t.Fatal(err)
	}
	defer os.RemoveAll(mat.dir)
	w := &worker{m: m, mat: mat}
	w.sweep(0, latticeSize(), 16, false)
}
