package c18

import (
	"crypto"
	"crypto/ecdsa"
	"crypto/ed25519"
	"crypto/elliptic"
	"crypto/rand"
	"crypto/rsa"
	"crypto/tls"
	"crypto/x509"
	"crypto/x509/pkix"
	"encoding/pem"
	"errors"
	"math/big"
	"net"
	"os"
	"path/filepath"
	"sync"
	"time"
)

var errRejected = errors.New("c18: peer rejected by the supplied callback")

// material is the key material of one worker: minted once, in memory and in a temp dir.
type material struct {
	dir string

	ca1, ca2       *x509.Certificate
	ca1Key, ca2Key *ecdsa.PrivateKey
	ca1PEM         []byte
	caBundlePEM    []byte // the CA *file*: a bundle holding an unrelated CA first, then CA one

	srv0, srv1, srv2             tls.Certificate
	srv0Leaf, srv1Leaf, srv2Leaf *x509.Certificate

	rsaKey  *rsa.PrivateKey
	rsaCert *x509.Certificate
	ecKey   *ecdsa.PrivateKey
	ecOther *ecdsa.PrivateKey
	ecCert  *x509.Certificate
	edKey   ed25519.PrivateKey

	// the loaded-material-shapes sub-workload: client certificates of further key algorithms / curves (signed by CA one)
	edCert    *x509.Certificate // certifies edKey (Ed25519)
	ec384Key  *ecdsa.PrivateKey
	ec384Cert *x509.Certificate // certifies ec384Key (ECDSA on P-384)
	rsa2Cert  *x509.Certificate // a SECOND RSA certificate: certifies a key that is not held (only the certificate exists)

	// the material-encodings sub-workload: a client pair whose certificate was issued by an intermediate CA
	interCert *x509.Certificate // intermediate, signed by CA one
	chainKey  *ecdsa.PrivateKey
	chainCert *x509.Certificate // leaf, signed by the intermediate

	// the root-kinds sub-workload: certificates supplied as roots that are no certificate authorities
	pinnedCert *x509.Certificate // a self-signed SERVER certificate (alpha.test + 127.0.0.1) without the CA flag, served by listener s3
	pinned     tls.Certificate
	pinnedPEM  []byte
	bareCert   *x509.Certificate // a self-signed certificate without basic constraints

	files   map[string]string
	content map[string][]byte // what was written to each file (path -> bytes): lets the monitor tell a vanished file from a library fault
	cache   tls.ClientSessionCache

	// the rotation sub-workload: while rot is non-nil every named file slot of kind k resolves to rot[k], ONE path
	// per kind whose content the workload replaces between calls
	rot map[string]string

	// the material-sizes sub-workload: filler roots (minted once per worker, one key for all of them) and the sized
	// files that exist right now (built before a point is evaluated, removed afterwards)
	fillerKey    *ecdsa.PrivateKey
	fillers      []*x509.Certificate
	fillerPEM    [][]byte
	sizedRoots   map[string][]*x509.Certificate // sized CA file name -> every certificate the file holds
	sizedSeq     int
	foreign      map[string][]byte // PEM blocks that are no CERTIFICATE, by kind (CA files with foreign blocks)
	sizedMissing bool              // a sized file was asked for although it had not been built: a fault of the harness's plumbing
}

// path maps a slot content name to a file path; kind is crt | key | ca.
func (mt *material) path(name, kind string) string {
	if name == "" {
		return ""
	}
	if mt.rot != nil {
		return mt.rot[kind]
	}
	switch name {
	case "unreadable":
		return filepath.Join(mt.dir, "does-not-exist-"+kind+".pem")
	case "garbage":
		return mt.files["garbage"]
	}
	if isSized(name) {
		if _, built := mt.files[name+"."+kind]; !built {
			mt.sizedMissing = true // nothing is raised by this worker any more (see materialGone)
			return filepath.Join(mt.dir, "sized-file-not-built-"+kind+".pem")
		}
	}
	return mt.files[name+"."+kind]
}

// pool returns a FRESH pool for a slot content name (TLSClientAuth may modify the pool it is given).
func (mt *material) pool(name string) *x509.CertPool {
	switch name {
	case "ca2":
		p := x509.NewCertPool()
		p.AddCert(mt.ca2)
		return p
	case "empty":
		return x509.NewCertPool()
	case "pinned":
		p := x509.NewCertPool()
		p.AddCert(mt.pinnedCert)
		return p
	case "system+ca2":
		p, err := x509.SystemCertPool()
		if err != nil || p == nil {
			p = x509.NewCertPool()
		}
		p.AddCert(mt.ca2)
		return p
	}
	return nil
}

var serial int64 = 1000

func template(cn string) *x509.Certificate {
	serial++
	return &x509.Certificate{
		SerialNumber: big.NewInt(serial),
		Subject:      pkix.Name{CommonName: cn, Organization: []string{"verif c18"}},
		NotBefore:    time.Now().Add(-time.Hour),
		NotAfter:     time.Now().Add(48 * time.Hour),
	}
}

func mintCA(cn string) (*x509.Certificate, *ecdsa.PrivateKey, []byte, error) {
	k, err := ecdsa.GenerateKey(elliptic.P256(), rand.Reader)
	if err != nil {
		return nil, nil, nil, err
	}
	t := template(cn)
	t.IsCA = true
	t.BasicConstraintsValid = true
	t.KeyUsage = x509.KeyUsageCertSign | x509.KeyUsageDigitalSignature
	der, err := x509.CreateCertificate(rand.Reader, t, t, &k.PublicKey, k)
	if err != nil {
		return nil, nil, nil, err
	}
	c, err := x509.ParseCertificate(der)
	return c, k, pem.EncodeToMemory(&pem.Block{Type: "CERTIFICATE", Bytes: der}), err
}

func mintLeaf(cn string, pub crypto.PublicKey, ca *x509.Certificate, caKey *ecdsa.PrivateKey, server bool, dns []string, ips []net.IP) (*x509.Certificate, error) {
	t := template(cn)
	t.KeyUsage = x509.KeyUsageDigitalSignature | x509.KeyUsageKeyEncipherment
	if server {
		t.ExtKeyUsage = []x509.ExtKeyUsage{x509.ExtKeyUsageServerAuth}
		t.DNSNames = dns
		t.IPAddresses = ips
	} else {
		t.ExtKeyUsage = []x509.ExtKeyUsage{x509.ExtKeyUsageClientAuth}
	}
	der, err := x509.CreateCertificate(rand.Reader, t, ca, pub, caKey)
	if err != nil {
		return nil, err
	}
	return x509.ParseCertificate(der)
}

// The "system" trust store of the worker process: one minted CA, installed once per process
// through the environment variables crypto/x509 honours on Linux, before the first use of the
// system pool. The file only has to exist while the store is loaded.
var (
	sysOnce   sync.Once
	sysCA     *x509.Certificate
	sysCAKey  *ecdsa.PrivateKey
	sysErr    error
	sysPinned bool
)

func pinSystemRoots(base string) {
	sysOnce.Do(func() {
		var pemBytes []byte
		if sysCA, sysCAKey, pemBytes, sysErr = mintCA("verif system root"); sysErr != nil {
			return
		}
		dir, err := privateDir(base, "sys-")
		if err != nil {
			sysErr = err
			return
		}
		defer os.RemoveAll(dir)
		file := filepath.Join(dir, "roots.pem")
		empty := filepath.Join(dir, "empty")
		if sysErr = os.WriteFile(file, pemBytes, 0o600); sysErr != nil {
			return
		}
		if sysErr = os.Mkdir(empty, 0o700); sysErr != nil {
			return
		}
		_ = os.Setenv("SSL_CERT_FILE", file)
		_ = os.Setenv("SSL_CERT_DIR", empty)
		if sp, err := x509.SystemCertPool(); err == nil && sp != nil {
			subj := sp.Subjects() //nolint:staticcheck
			sysPinned = len(subj) == 1 && string(subj[0]) == string(sysCA.RawSubject)
		}
	})
}

// privateDir creates a fresh directory (mode 0700) for the monitor's files. It lives under base, the run directory of
// this check (<VERIF_OUT>/run/c18-material, created and owned by the monitor), not directly in the shared $TMPDIR where a
// clean-up job of somebody else could remove it; only when base cannot be used it falls back to a private directory
// under $TMPDIR.
func privateDir(base, prefix string) (string, error) {
	if base != "" {
		if err := os.MkdirAll(base, 0o700); err == nil {
			if d, err := os.MkdirTemp(base, prefix); err == nil {
				return d, nil
			}
		}
	}
	return os.MkdirTemp("", "verif-c18-"+prefix)
}

// intact reports whether every file the monitor wrote is still there with the bytes it wrote (the rotating
// files of the rotation sub-workload are not part of the set).
func (mt *material) intact() bool {
	for p, want := range mt.content {
		got, err := os.ReadFile(p)
		if err != nil || string(got) != string(want) {
			return false
		}
	}
	return true
}

func mint(base string) (mt *material, err error) {
	pinSystemRoots(base)
	if sysErr != nil {
		return nil, sysErr
	}
	mt = &material{files: map[string]string{}, content: map[string][]byte{}, cache: tls.NewLRUClientSessionCache(8)}
	if mt.dir, err = privateDir(base, "w-"); err != nil {
		return nil, err
	}
	defer func() {
		if err != nil {
			_ = os.RemoveAll(mt.dir)
		}
	}()
	if mt.ca1, mt.ca1Key, mt.ca1PEM, err = mintCA("verif CA one"); err != nil {
		return nil, err
	}
	if mt.ca2, mt.ca2Key, _, err = mintCA("verif CA two"); err != nil {
		return nil, err
	}
	// servers
	k0, err := ecdsa.GenerateKey(elliptic.P256(), rand.Reader)
	if err != nil {
		return nil, err
	}
	if mt.srv0Leaf, err = mintLeaf("alpha.test", &k0.PublicKey, sysCA, sysCAKey, true, []string{"alpha.test"}, []net.IP{net.IPv4(127, 0, 0, 1)}); err != nil {
		return nil, err
	}
	mt.srv0 = tls.Certificate{Certificate: [][]byte{mt.srv0Leaf.Raw}, PrivateKey: k0, Leaf: mt.srv0Leaf}
	k1, err := ecdsa.GenerateKey(elliptic.P256(), rand.Reader)
	if err != nil {
		return nil, err
	}
	if mt.srv1Leaf, err = mintLeaf("alpha.test", &k1.PublicKey, mt.ca1, mt.ca1Key, true, []string{"alpha.test"}, []net.IP{net.IPv4(127, 0, 0, 1)}); err != nil {
		return nil, err
	}
	mt.srv1 = tls.Certificate{Certificate: [][]byte{mt.srv1Leaf.Raw}, PrivateKey: k1, Leaf: mt.srv1Leaf}
	k2, err := ecdsa.GenerateKey(elliptic.P256(), rand.Reader)
	if err != nil {
		return nil, err
	}
	if mt.srv2Leaf, err = mintLeaf("beta.test", &k2.PublicKey, mt.ca2, mt.ca2Key, true, []string{"beta.test"}, nil); err != nil {
		return nil, err
	}
	mt.srv2 = tls.Certificate{Certificate: [][]byte{mt.srv2Leaf.Raw}, PrivateKey: k2, Leaf: mt.srv2Leaf}
	// clients
	if mt.rsaKey, err = rsa.GenerateKey(rand.Reader, 2048); err != nil {
		return nil, err
	}
	if mt.rsaCert, err = mintLeaf("rsa client", &mt.rsaKey.PublicKey, mt.ca1, mt.ca1Key, false, nil, nil); err != nil {
		return nil, err
	}
	if mt.ecKey, err = ecdsa.GenerateKey(elliptic.P256(), rand.Reader); err != nil {
		return nil, err
	}
	if mt.ecCert, err = mintLeaf("ec client", &mt.ecKey.PublicKey, mt.ca1, mt.ca1Key, false, nil, nil); err != nil {
		return nil, err
	}
	if mt.ecOther, err = ecdsa.GenerateKey(elliptic.P256(), rand.Reader); err != nil {
		return nil, err
	}
	if _, mt.edKey, err = ed25519.GenerateKey(rand.Reader); err != nil {
		return nil, err
	}
	if mt.edCert, err = mintLeaf("ed25519 client", mt.edKey.Public(), mt.ca1, mt.ca1Key, false, nil, nil); err != nil {
		return nil, err
	}
	if mt.ec384Key, err = ecdsa.GenerateKey(elliptic.P384(), rand.Reader); err != nil {
		return nil, err
	}
	if mt.ec384Cert, err = mintLeaf("ec p-384 client", &mt.ec384Key.PublicKey, mt.ca1, mt.ca1Key, false, nil, nil); err != nil {
		return nil, err
	}
	{
		// an RSA public key whose private half nobody holds: the modulus of the client key plus two (odd, of the same
		// size); a certificate needs no usable key behind it to be a certificate
		n := new(big.Int).Add(mt.rsaKey.N, big.NewInt(2))
		if mt.rsa2Cert, err = mintLeaf("rsa client two", &rsa.PublicKey{N: n, E: mt.rsaKey.E}, mt.ca1, mt.ca1Key, false, nil, nil); err != nil {
			return nil, err
		}
	}
	// files
	write := func(name string, data []byte) error {
		p := filepath.Join(mt.dir, name)
		mt.files[name] = p
		mt.content[p] = append([]byte{}, data...)
		return os.WriteFile(p, data, 0o600)
	}
	certPEM := func(c *x509.Certificate) []byte {
		return pem.EncodeToMemory(&pem.Block{Type: "CERTIFICATE", Bytes: c.Raw})
	}
	ecPEM := func(k *ecdsa.PrivateKey) ([]byte, error) {
		der, err := x509.MarshalECPrivateKey(k)
		if err != nil {
			return nil, err
		}
		return pem.EncodeToMemory(&pem.Block{Type: "EC PRIVATE KEY", Bytes: der}), nil
	}
	if err = write("rsa.crt", certPEM(mt.rsaCert)); err != nil {
		return nil, err
	}
	if err = write("rsa.key", pem.EncodeToMemory(&pem.Block{Type: "RSA PRIVATE KEY", Bytes: x509.MarshalPKCS1PrivateKey(mt.rsaKey)})); err != nil {
		return nil, err
	}
	if err = write("ec.crt", certPEM(mt.ecCert)); err != nil {
		return nil, err
	}
	b, err := ecPEM(mt.ecKey)
	if err != nil {
		return nil, err
	}
	if err = write("ec.key", b); err != nil {
		return nil, err
	}
	if b, err = ecPEM(mt.ecOther); err != nil {
		return nil, err
	}
	if err = write("ec-other.key", b); err != nil {
		return nil, err
	}
	// other encodings of usable material (sub-workload "material encodings"): PKCS#8 key files, one file holding
	// certificate and key (Certificate and Key name the same path), a certificate file of leaf plus intermediate
	pkcs8PEM := func(k crypto.PrivateKey) ([]byte, error) {
		der, err := x509.MarshalPKCS8PrivateKey(k)
		if err != nil {
			return nil, err
		}
		return pem.EncodeToMemory(&pem.Block{Type: "PRIVATE KEY", Bytes: der}), nil
	}
	if b, err = pkcs8PEM(mt.ecKey); err != nil {
		return nil, err
	}
	if err = write("ec-pkcs8.key", b); err != nil {
		return nil, err
	}
	if b, err = pkcs8PEM(mt.rsaKey); err != nil {
		return nil, err
	}
	if err = write("rsa-pkcs8.key", b); err != nil {
		return nil, err
	}
	if b, err = ecPEM(mt.ecKey); err != nil {
		return nil, err
	}
	if err = write("ec-combined.pem", append(append([]byte{}, certPEM(mt.ecCert)...), b...)); err != nil {
		return nil, err
	}
	mt.files["ec-combined.crt"], mt.files["ec-combined.key"] = mt.files["ec-combined.pem"], mt.files["ec-combined.pem"]
	interKey, err := ecdsa.GenerateKey(elliptic.P256(), rand.Reader)
	if err != nil {
		return nil, err
	}
	it := template("verif intermediate of CA one")
	it.IsCA, it.BasicConstraintsValid, it.KeyUsage = true, true, x509.KeyUsageCertSign|x509.KeyUsageDigitalSignature
	ider, err := x509.CreateCertificate(rand.Reader, it, mt.ca1, &interKey.PublicKey, mt.ca1Key)
	if err != nil {
		return nil, err
	}
	if mt.interCert, err = x509.ParseCertificate(ider); err != nil {
		return nil, err
	}
	if mt.chainKey, err = ecdsa.GenerateKey(elliptic.P256(), rand.Reader); err != nil {
		return nil, err
	}
	if mt.chainCert, err = mintLeaf("chain client", &mt.chainKey.PublicKey, mt.interCert, interKey, false, nil, nil); err != nil {
		return nil, err
	}
	if err = write("chain.crt", append(append([]byte{}, certPEM(mt.chainCert)...), certPEM(mt.interCert)...)); err != nil {
		return nil, err
	}
	if b, err = ecPEM(mt.chainKey); err != nil {
		return nil, err
	}
	if err = write("chain.key", b); err != nil {
		return nil, err
	}
	_, _, extraPEM, err := mintCA("verif unrelated CA in the bundle")
	if err != nil {
		return nil, err
	}
	mt.caBundlePEM = append(append([]byte{}, extraPEM...), mt.ca1PEM...)
	if err = write("ca1.ca", mt.caBundlePEM); err != nil {
		return nil, err
	}
	if err = write("garbage", []byte("this is not PEM\x00\x01\x02 -----BEGIN NOTHING-----\nAAAA\n")); err != nil {
		return nil, err
	}
	// roots that are no certificate authorities (sub-workload "root kinds"): a self-signed server certificate that a
	// client pins as its only root, and a self-signed certificate without basic constraints
	pk, err := ecdsa.GenerateKey(elliptic.P256(), rand.Reader)
	if err != nil {
		return nil, err
	}
	pt := template("alpha.test")
	pt.Subject.Organization = []string{"verif c18 pinned self-signed server"}
	pt.KeyUsage = x509.KeyUsageDigitalSignature
	pt.ExtKeyUsage = []x509.ExtKeyUsage{x509.ExtKeyUsageServerAuth}
	pt.DNSNames = []string{"alpha.test"}
	pt.IPAddresses = []net.IP{net.IPv4(127, 0, 0, 1)}
	pder, err := x509.CreateCertificate(rand.Reader, pt, pt, &pk.PublicKey, pk)
	if err != nil {
		return nil, err
	}
	if mt.pinnedCert, err = x509.ParseCertificate(pder); err != nil {
		return nil, err
	}
	mt.pinned = tls.Certificate{Certificate: [][]byte{pder}, PrivateKey: pk, Leaf: mt.pinnedCert}
	mt.pinnedPEM = certPEM(mt.pinnedCert)
	if err = write("pinned.ca", mt.pinnedPEM); err != nil {
		return nil, err
	}
	bk, err := ecdsa.GenerateKey(elliptic.P256(), rand.Reader)
	if err != nil {
		return nil, err
	}
	bt := template("verif root without basic constraints")
	bt.KeyUsage = x509.KeyUsageCertSign | x509.KeyUsageDigitalSignature
	bder, err := x509.CreateCertificate(rand.Reader, bt, bt, &bk.PublicKey, bk)
	if err != nil {
		return nil, err
	}
	if mt.bareCert, err = x509.ParseCertificate(bder); err != nil {
		return nil, err
	}
	if mt.pinnedCert.IsCA || mt.bareCert.IsCA || mt.bareCert.BasicConstraintsValid {
		return nil, errors.New("c18: the minted non-CA roots came out flagged as certificate authorities")
	}
	return mt, nil
}
