// Package c05 monitors the denco trie router core: soundness, completeness, static
// precedence, literal-over-parameter preference, totality and build-order independence.
package c05

import (
	"encoding/json"
	"fmt"
	"math/rand"
	"net/http"
	"net/http/httptest"
	"net/url"
	"strings"

	"github.com/go-openapi/runtime/middleware/denco"

	"verif/gen"
	"verif/mon"
)

func init() {
	mon.Register(&mon.Property{
		ID:    "C05",
		Level: "exploration",
		Rule: "seeded pattern sets (static, :name, lit:name, =:name, trailing *name over a 6-word alphabet; names unique per pattern) each built in K random insertion orders; " +
			"lookup paths = instantiations with hostile parameter texts (incl. ':' '*' '#' '='), one-edit mutations, random bytes; oracle = naive per-pattern matcher written from the statement. " +
			"non-trivial = (pattern-set hash, path) where the reference finds an instantiation or the path shares >= 1 leading segment with a pattern; distinct by that pair",
		Assumptions: []string{
			"pattern syntax: ':' starts a single-segment parameter named up to the next '/', '*' starts a wildcard named by the rest of the pattern; a record is parameterised only if it contains '/:' '/*' or '=:' (denco's rule), otherwise the whole key is a static literal",
			"patterns that use ':' '*' '#' as literal bytes are not generated (the router defines no syntax for them)",
			"pattern sets rejected by Build are not judged",
			"parameter-vs-wildcard preference is not stated and not judged",
		},
		MinNontrivial: 200,
		Run:           run,
		Replay:        replay,
	})
}

// Case is one pattern set, the build orders and the looked-up paths.
type Case struct {
	Patterns []mon.Q `json:"patterns"`
	Orders   [][]int `json:"orders"`
	Paths    []mon.Q `json:"paths"`
	ViaMux   bool    `json:"via_mux,omitempty"`
	// MuxMethods: the mux registers every pattern under GET and the even-numbered ones under POST as
	// well; requests use GET, POST and PUT in turn (PUT has no routes: nothing may be found)
	MuxMethods bool `json:"mux_methods,omitempty"`
	// SizeHint, when set, is assigned to Router.SizeHint before Build (the exported tuning knob)
	SizeHint *int `json:"size_hint,omitempty"`
	// Generated: the set comes from the generator (a replayed foreign case may hold anything)
	Generated bool `json:"generated,omitempty"`
}

// ---- reference model ----

type tok struct {
	kind byte // 'l' literal byte, 'p' single parameter, 'w' wildcard
	b    byte
	name string
}

type refPattern struct {
	text   string
	static bool
	toks   []tok
}

func parsePattern(p string) refPattern {
	rp := refPattern{text: p}
	if !(strings.Contains(p, "/:") || strings.Contains(p, "/*") || strings.Contains(p, "=:")) {
		rp.static = true
		return rp
	}
	for i := 0; i < len(p); {
		switch p[i] {
		case ':':
			j := i + 1
			for j < len(p) && p[j] != '/' {
				j++
			}
			rp.toks = append(rp.toks, tok{kind: 'p', name: p[i+1 : j]})
			i = j
		case '*':
			rp.toks = append(rp.toks, tok{kind: 'w', name: p[i+1:]})
			i = len(p)
		default:
			rp.toks = append(rp.toks, tok{kind: 'l', b: p[i]})
			i++
		}
	}
	return rp
}

// instantiate reports whether path instantiates the pattern, and with which texts.
func (rp *refPattern) instantiate(path string) ([]denco.Param, bool) {
	if rp.static {
		return nil, path == rp.text
	}
	var ps []denco.Param
	i := 0
	for _, t := range rp.toks {
		switch t.kind {
		case 'l':
			if i >= len(path) || path[i] != t.b {
				return nil, false
			}
			i++
		case 'p':
			j := i
			for j < len(path) && path[j] != '/' {
				j++
			}
			ps = append(ps, denco.Param{Name: t.name, Value: path[i:j]})
			i = j
		case 'w':
			ps = append(ps, denco.Param{Name: t.name, Value: path[i:]})
			i = len(path)
		}
	}
	return ps, i == len(path)
}

func allNonEmpty(ps []denco.Param) bool {
	for _, p := range ps {
		if p.Value == "" {
			return false
		}
	}
	return true
}

// literalBeats reports whether pattern a is owed precedence over pattern b on this path: at the
// first structural difference (walking both along the path) a has a literal where b has a parameter.
func literalBeats(a, b *refPattern, path string) bool {
	if a.static {
		return !b.static
	}
	if b.static {
		return false
	}
	ia, ib := 0, 0
	for ia < len(a.toks) && ib < len(b.toks) {
		ta, tb := a.toks[ia], b.toks[ib]
		switch {
		case ta.kind == 'l' && tb.kind == 'l':
			ia++
			ib++
		case ta.kind == 'p' && tb.kind == 'p':
			ia++
			ib++
		case ta.kind == 'w' && tb.kind == 'w':
			return false
		case ta.kind == 'l' && (tb.kind == 'p' || tb.kind == 'w'):
			return true
		default:
			return false
		}
	}
	return false
}

// ---- execution ----

type answer struct {
	found  bool
	data   string
	params []denco.Param
	raw    denco.Params // the very slice Lookup returned (not copied): see heldRaw
	panic  string
}

func (a answer) String() string {
	if a.panic != "" {
		return "panic(" + a.panic + ")"
	}
	if !a.found {
		return "notfound"
	}
	var sb strings.Builder
	sb.WriteString(a.data)
	for _, p := range a.params {
		fmt.Fprintf(&sb, " %s=%q", p.Name, p.Value)
	}
	return sb.String()
}

func lookup(rt *denco.Router, path string) (a answer) {
	defer func() {
		if r := recover(); r != nil {
			a = answer{panic: fmt.Sprint(r)}
		}
	}()
	d, ps, ok := rt.Lookup(path)
	a.found = ok
	if ok {
		if s, isS := d.(string); isS {
			a.data = s
		} else {
			a.data = fmt.Sprintf("<%T>", d)
		}
		a.params = append([]denco.Param(nil), ps...)
		a.raw = ps
	}
	return a
}

func reservedIn(path string) string {
	if strings.ContainsAny(path, ":*#") {
		return "reserved-byte-in-path"
	}
	return "plain-path"
}

func runCase(m *mon.M, c *Case) {
	pats := mon.SQ(c.Patterns)
	refs := make([]refPattern, len(pats))
	byText := map[string]*refPattern{}
	for i, p := range pats {
		refs[i] = parsePattern(p)
		byText[p] = &refs[i]
	}
	var routers []*denco.Router
	var postRouters []*denco.Router
	var muxes []http.Handler
	// the records are created once; every build after the first one receives THE SAME slice, reordered
	// in place (the way a caller re-sorts its table): whatever a build does to its input reaches the next
	recs := make([]denco.Record, len(pats))
	idx := make([]int, len(pats)) // idx[j] = pattern number of recs[j]
	for i := range pats {
		recs[i], idx[i] = denco.NewRecord(pats[i], pats[i]), i
	}
	for _, ord := range c.Orders {
		pos := make(map[int]int, len(idx))
		for j, i := range idx {
			pos[i] = j
		}
		for j, i := range ord { // bring pattern i to position j by swapping
			k := pos[i]
			if k != j {
				recs[j], recs[k] = recs[k], recs[j]
				pos[idx[j]], pos[i] = k, j
				idx[j], idx[k] = idx[k], idx[j]
			}
		}
		rt := denco.New()
		if c.SizeHint != nil {
			rt.SizeHint = *c.SizeHint
		}
		var berr error
		pv, st := mon.Catch(func() { berr = rt.Build(recs) })
		if pv != nil {
			m.Violate("build-panic", fmt.Sprintf("Build panicked: %v\n%s", pv, st), c)
			return
		}
		if berr != nil {
			if c.Generated {
				// generated sets are well formed (unique structures, unique names inside a pattern): Build has no
				// reason to refuse them, and a refusal silently shrinks what is explored
				m.Violate("build-rejects-wellformed-set", fmt.Sprintf("Build refused a generated set of %d patterns: %v", len(pats), berr), c)
			}
			m.Class("build-rejected")
			return
		}
		routers = append(routers, rt)
		if c.ViaMux {
			mux := denco.NewMux()
			var hs []denco.Handler
			var postRecs []denco.Record
			for _, i := range ord {
				pat := pats[i]
				hf := func(w http.ResponseWriter, _ *http.Request, ps denco.Params) {
					w.Header().Set("X-Pattern", url.QueryEscape(pat))
					for _, p := range ps {
						w.Header().Add("X-Param", url.QueryEscape(p.Name)+"="+url.QueryEscape(p.Value))
					}
				}
				hs = append(hs, mux.GET(pat, hf))
				if c.MuxMethods && i%2 == 0 {
					hs = append(hs, mux.POST(pat, hf))
					postRecs = append(postRecs, denco.NewRecord(pat, pat))
				}
			}
			prt := denco.New()
			if len(postRecs) > 0 {
				_ = prt.Build(postRecs)
			}
			postRouters = append(postRouters, prt)
			h, err := mux.Build(hs)
			if err == nil {
				muxes = append(muxes, h)
			}
		}
	}
	setHash := fmt.Sprintf("%x", mon.Hash64(strings.Join(sortedCopy(pats), "\x00")))
	heldRaw := make([][]denco.Param, len(routers))
	heldStr := make([]string, len(routers))
	for pi, qp := range c.Paths {
		path := string(qp)
		m.Eval(1)
		// reference
		type inst struct {
			rp *refPattern
			ps []denco.Param
		}
		var insts []inst
		for i := range refs {
			if ps, ok := refs[i].instantiate(path); ok {
				insts = append(insts, inst{&refs[i], ps})
			}
		}
		nontrivial := len(insts) > 0
		if !nontrivial {
			for _, p := range pats {
				if sharesFirstSegment(p, path) {
					nontrivial = true
					break
				}
			}
		}
		if nontrivial {
			m.NT(setHash + "|" + path)
		}
		feat := reservedIn(path)
		var first answer
		for k, rt := range routers {
			a := lookup(rt, path)
			// what an earlier Lookup handed out must not change under a later one (the caller still holds it)
			if k < len(heldRaw) && heldRaw[k] != nil && fmt.Sprint(heldRaw[k]) != heldStr[k] {
				m.Violate("earlier-result-altered-by-later-lookup/"+reservedIn(path), fmt.Sprintf("params of an earlier Lookup read %s before and %v after Lookup(%q)", heldStr[k], heldRaw[k], path), &Case{Patterns: c.Patterns, Orders: c.Orders[:k+1], Paths: c.Paths[:pi+1], SizeHint: c.SizeHint})
			}
			if k < len(heldRaw) {
				heldRaw[k], heldStr[k] = a.raw, fmt.Sprint(a.raw)
			}
			one := &Case{Patterns: c.Patterns, Orders: c.Orders[:k+1], Paths: []mon.Q{qp}, SizeHint: c.SizeHint}
			if a.panic != "" {
				m.Violate("lookup-panic/"+feat, fmt.Sprintf("Lookup(%q) panicked: %s", path, a.panic), one)
				continue
			}
			if k == 0 {
				first = a
			} else if a.String() != first.String() {
				two := &Case{Patterns: c.Patterns, Orders: c.Orders[:k+1], Paths: []mon.Q{qp}, SizeHint: c.SizeHint}
				m.Violate("order-dependent/"+feat, fmt.Sprintf("Lookup(%q): order#0 -> %s ; order#%d -> %s", path, first, k, a), two)
			}
			if a.found {
				rp := byText[a.data]
				if rp == nil {
					m.Violate("unsound-unknown-data/"+feat, fmt.Sprintf("Lookup(%q) returned data %q that is no registered pattern", path, a.data), one)
					continue
				}
				want, ok := rp.instantiate(path)
				if !ok {
					m.Violate("unsound-not-instantiated/"+feat, fmt.Sprintf("Lookup(%q) -> %s, but the path does not instantiate that pattern", path, a), one)
					continue
				}
				if !sameParams(want, a.params) {
					m.Violate("unsound-params/"+feat, fmt.Sprintf("Lookup(%q) -> %s, expected params %v", path, a, want), one)
					continue
				}
				// literal preference
				for _, in := range insts {
					if in.rp != rp && allNonEmpty(in.ps) && literalBeats(in.rp, rp, path) {
						m.Violate("literal-not-preferred/"+feat, fmt.Sprintf("Lookup(%q) -> %s although pattern %q (literal at the first difference) also matches", path, a, in.rp.text), one)
						break
					}
				}
				m.Class("found")
			} else {
				for _, in := range insts {
					if in.rp.static {
						m.Violate("static-miss/"+feat, fmt.Sprintf("Lookup(%q) not found although it equals the parameter-free pattern", path), one)
						break
					}
					if allNonEmpty(in.ps) {
						m.Violate("incomplete/"+feat, fmt.Sprintf("Lookup(%q) not found although it instantiates %q with %v", path, in.rp.text, in.ps), one)
						break
					}
				}
				m.Class("notfound")
			}
			// static equality must return that very pattern
			if rp, ok := byText[path]; ok && rp.static && a.found && a.data != path {
				m.Violate("static-shadowed/"+feat, fmt.Sprintf("Lookup(%q) -> %s although the path equals a parameter-free pattern", path, a), one)
			}
		}
		// serveMux agreement (URL.Path fed directly)
		for k, h := range muxes {
			if k >= len(routers) {
				break
			}
			want := lookup(routers[k], path)
			method := http.MethodGet
			if c.MuxMethods {
				switch pi % 3 {
				case 1:
					method = http.MethodPost
					want = lookup(postRouters[k], path)
				case 2:
					method = http.MethodPut
					want = answer{}
				}
			}
			rec := httptest.NewRecorder()
			req := &http.Request{Method: method, URL: &url.URL{Path: path}, Header: http.Header{}}
			pv, _ := mon.Catch(func() { h.ServeHTTP(rec, req) })
			one := &Case{Patterns: c.Patterns, Orders: c.Orders[:k+1], Paths: c.Paths[:pi+1], ViaMux: true, MuxMethods: c.MuxMethods, SizeHint: c.SizeHint}
			if pv != nil {
				if want.panic == "" {
					m.Violate("mux-panic/"+feat, fmt.Sprintf("mux.ServeHTTP(%q) panicked: %v", path, pv), one)
				}
				continue
			}
			got := answer{}
			if xp := rec.Header().Get("X-Pattern"); xp != "" {
				got.found = true
				got.data, _ = url.QueryUnescape(xp)
				for _, kv := range rec.Header().Values("X-Param") {
					i := strings.IndexByte(kv, '=')
					n, _ := url.QueryUnescape(kv[:i])
					v, _ := url.QueryUnescape(kv[i+1:])
					got.params = append(got.params, denco.Param{Name: n, Value: v})
				}
			}
			if want.panic == "" && got.String() != want.String() {
				m.Violate("mux-disagrees/"+feat, fmt.Sprintf("mux for %q -> %s, Lookup -> %s", path, got, want), one)
			}
			m.Class("mux")
		}
	}
	if m.WantSample() {
		s := *c
		if len(s.Paths) > 4 {
			s.Paths = s.Paths[:4]
		}
		if len(s.Patterns) > 12 {
			s.Patterns = s.Patterns[:12]
			s.Orders = nil
		}
		m.Sample(s)
	}
}

func sameParams(a, b []denco.Param) bool {
	if len(a) != len(b) {
		return false
	}
	for i := range a {
		if a[i] != b[i] {
			return false
		}
	}
	return true
}

func sharesFirstSegment(p, path string) bool {
	seg := func(s string) string {
		if len(s) == 0 || s[0] != '/' {
			return ""
		}
		s = s[1:]
		if i := strings.IndexByte(s, '/'); i >= 0 {
			s = s[:i]
		}
		return s
	}
	a, b := seg(p), seg(path)
	return a != "" && a == b
}

func sortedCopy(l []string) []string {
	c := append([]string(nil), l...)
	for i := 1; i < len(c); i++ {
		for j := i; j > 0 && c[j] < c[j-1]; j-- {
			c[j], c[j-1] = c[j-1], c[j]
		}
	}
	return c
}

// ---- generation ----

// literalWords: the shared alphabet plus non-ASCII words (their UTF-8 bytes have the high bit set) and,
// for records that stay static, words with ':' or '*' in mid-segment (literal there by denco's own rule).
var literalWords = append(append([]string{}, gen.Words...), "manh\u00e3", "men\u00fa", "f\u00eate", "\u043a\u043d", "caf\u00e9", "\u00a3", "\u00aa", "\u00ba")

// longWords: literal words that carry a pattern (and the paths equal to it) across the lengths where
// fixed-width bookkeeping would wrap (31..33, 63..65, 127..129, 255..257 bytes).
var longWords = func() []string {
	var out []string
	for _, n := range []int{29, 30, 31, 32, 61, 62, 63, 64, 125, 126, 127, 128, 253, 254, 255, 256} {
		out = append(out, strings.Repeat("organizations-", n/14+1)[:n])
	}
	return out
}()

func word(r *rand.Rand) string {
	if r.Intn(40) == 0 {
		return longWords[r.Intn(len(longWords))]
	}
	if r.Intn(6) == 0 {
		return literalWords[r.Intn(len(literalWords))]
	}
	return gen.Pick(r, gen.Words)
}

func genPattern(r *rand.Rand, id int) string {
	nseg := 1 + r.Intn(4)
	var sb strings.Builder
	np := 0
	for s := 0; s < nseg; s++ {
		sb.WriteByte('/')
		switch k := r.Intn(20); {
		case k < 9:
			sb.WriteString(word(r))
		case k < 14:
			fmt.Fprintf(&sb, ":p%d_%d", id, np)
			np++
		case k < 16:
			sb.WriteString(word(r))
			fmt.Fprintf(&sb, ":p%d_%d", id, np)
			np++
		case k < 17:
			sb.WriteString(word(r))
			fmt.Fprintf(&sb, "=:p%d_%d", id, np)
			np++
		case k < 18 && s == nseg-1:
			if np > 0 && r.Intn(3) == 0 {
				// a wildcard after a literal, inside the last segment of a parameterised record
				sb.WriteString(word(r))
			}
			fmt.Fprintf(&sb, "*w%d", id)
			return sb.String()
		case k < 19:
			// empty segment (duplicate slash) or dotted word
			if r.Intn(2) == 0 {
				sb.WriteString(word(r) + "." + word(r))
			}
		default:
			sb.WriteString(word(r))
		}
	}
	if r.Intn(8) == 0 {
		sb.WriteByte('/')
	}
	if np == 0 && r.Intn(6) == 0 {
		// parameter-free, with ':' or '*' in mid-segment: still a static record (only "/:" "/*" "=:" start parameters)
		return sb.String() + []string{"/items:batchGet", "/a*b", "/v1:x/ab", "/x*"}[r.Intn(4)]
	}
	return sb.String()
}

func genSet(r *rand.Rand, n int) []string {
	seen := map[string]bool{}
	var out []string
	for tries := 0; len(out) < n && tries < n*20; tries++ {
		p := genPattern(r, len(out))
		// structural key: names removed, so that no two patterns are structurally identical
		key := structKey(p)
		if seen[key] {
			continue
		}
		seen[key] = true
		out = append(out, p)
	}
	return out
}

func structKey(p string) string {
	rp := parsePattern(p)
	if rp.static {
		return "s" + p
	}
	var sb strings.Builder
	for _, t := range rp.toks {
		switch t.kind {
		case 'l':
			sb.WriteByte(t.b)
		case 'p':
			sb.WriteByte(':')
		case 'w':
			sb.WriteByte('*')
		}
	}
	return sb.String()
}

func instantiatePattern(r *rand.Rand, p string) string {
	rp := parsePattern(p)
	if rp.static {
		return p
	}
	var sb strings.Builder
	for _, t := range rp.toks {
		switch t.kind {
		case 'l':
			sb.WriteByte(t.b)
		case 'p':
			if r.Intn(12) == 0 {
				sb.WriteString(gen.Pick(r, gen.Words)) // a value that collides with a literal sibling
			} else if r.Intn(50) == 0 {
				sb.WriteString(gen.Value(r, 300, false)) // a long capture
			} else {
				sb.WriteString(gen.Value(r, 5, false))
			}
		case 'w':
			if r.Intn(50) == 0 {
				sb.WriteString(gen.Value(r, 300, true))
			} else {
				sb.WriteString(gen.Value(r, 8, true))
			}
		}
	}
	return sb.String()
}

func mutate(r *rand.Rand, s string) string {
	b := []byte(s)
	switch r.Intn(5) {
	case 0:
		if len(b) > 0 {
			i := r.Intn(len(b))
			b = append(b[:i], b[i+1:]...)
		}
	case 1:
		i := r.Intn(len(b) + 1)
		c := gen.HostileBytes[r.Intn(len(gen.HostileBytes))]
		if r.Intn(2) == 0 {
			c = "/ab:x*#="[r.Intn(8)]
		}
		b = append(b[:i], append([]byte{c}, b[i:]...)...)
	case 2:
		if len(b) > 0 {
			b[r.Intn(len(b))] = "/ab:x*#="[r.Intn(8)]
		}
	case 3:
		b = append(b, '/')
	case 4:
		if len(b) > 1 {
			b = b[:r.Intn(len(b))]
		}
	}
	return string(b)
}

const rawAlphabet = "/ab:x*#=\x00\xff."

func genPaths(r *rand.Rand, pats []string, n int) []string {
	out := make([]string, 0, n)
	for len(out) < n {
		switch k := r.Intn(10); {
		case k < 5:
			out = append(out, instantiatePattern(r, pats[r.Intn(len(pats))]))
		case k < 8:
			out = append(out, mutate(r, instantiatePattern(r, pats[r.Intn(len(pats))])))
		case k < 9:
			out = append(out, pats[r.Intn(len(pats))]) // the pattern text itself, with its ':' and '*'
		default:
			nb := r.Intn(12)
			b := make([]byte, nb)
			for i := range b {
				b[i] = rawAlphabet[r.Intn(len(rawAlphabet))]
			}
			out = append(out, "/"+string(b))
		}
	}
	for i := range out {
		if len(out[i]) > 1500 {
			out[i] = out[i][:1500]
		}
	}
	return out
}

func genCase(r *rand.Rand, maxPat, norders, npaths int) *Case {
	n := 1 + r.Intn(maxPat)
	pats := genSet(r, n)
	c := &Case{Patterns: mon.QS(pats)}
	for k := 0; k < norders; k++ {
		c.Orders = append(c.Orders, r.Perm(len(pats)))
	}
	c.Paths = mon.QS(genPaths(r, pats, npaths))
	c.Generated = true
	c.ViaMux = r.Intn(10) == 0
	c.MuxMethods = c.ViaMux && r.Intn(2) == 0
	if r.Intn(4) == 0 {
		h := []int{0, 1, 2, 64}[r.Intn(4)]
		c.SizeHint = &h
	}
	return c
}

func run(m *mon.M) {
	r := m.Rand("sets")
	nsets := m.N(8000, 100000)
	norders := m.N(4, 8)
	for i := 0; i < nsets; i++ {
		maxPat := 12
		if i%5 == 0 {
			maxPat = 40
		}
		c := genCase(r, maxPat, norders, 40)
		m.Begin(c)
		runCase(m, c)
	}
	// ladders: many parameter-capable nodes along ONE literal walk (the lookup keeps a candidate per node it
	// passes and backtracks to them), ended by a catch-all
	nl := m.N(60, 2000)
	for i := 0; i < nl; i++ {
		w := word(r)
		depth := 6 + r.Intn(14)
		var pats []string
		for k := 1; k <= depth; k++ {
			pats = append(pats, strings.Repeat("/"+w, k)+fmt.Sprintf("/:p%d/x", k))
		}
		pats = append(pats, "/*rest")
		c := &Case{Patterns: mon.QS(pats), Generated: true}
		for k := 0; k < 3; k++ {
			c.Orders = append(c.Orders, r.Perm(len(pats)))
		}
		var paths []string
		for k := 1; k <= depth+1; k++ {
			paths = append(paths, strings.Repeat("/"+w, k)+"/q/r", strings.Repeat("/"+w, k)+"/q/x", strings.Repeat("/"+w, k))
		}
		c.Paths = mon.QS(paths)
		m.Begin(c)
		runCase(m, c)
		m.Class("ladder-set")
	}
	// large tables
	big := m.N(3, 30)
	for i := 0; i < big; i++ {
		size := 200 + r.Intn(m.N(400, 2800))
		if i == 0 && m.Shard == 0 {
			size = 1500 // "thousands of records" in the quick tier too
		}
		pats := genBigSet(r, size)
		c := &Case{Patterns: mon.QS(pats), Generated: true}
		for k := 0; k < 3; k++ {
			c.Orders = append(c.Orders, r.Perm(len(pats)))
		}
		c.Paths = mon.QS(genPaths(r, pats, 400))
		m.Begin(map[string]interface{}{"big_set_seed_index": i, "size": len(pats)})
		runCase(m, c)
		m.Class("big-set")
	}
}

// genBigSet widens the alphabet so that thousands of structurally distinct patterns exist.
func genBigSet(r *rand.Rand, n int) []string {
	seen := map[string]bool{}
	var out []string
	words := append([]string{}, gen.Words...)
	for i := 0; i < 30; i++ {
		words = append(words, fmt.Sprintf("w%d", i))
	}
	for tries := 0; len(out) < n && tries < n*10; tries++ {
		nseg := 1 + r.Intn(5)
		var sb strings.Builder
		np := 0
		for s := 0; s < nseg; s++ {
			sb.WriteByte('/')
			switch k := r.Intn(10); {
			case k < 6:
				sb.WriteString(words[r.Intn(len(words))])
			case k < 9:
				fmt.Fprintf(&sb, ":p%d_%d", len(out), np)
				np++
			default:
				sb.WriteString(words[r.Intn(len(words))])
				fmt.Fprintf(&sb, ":p%d_%d", len(out), np)
				np++
			}
		}
		if r.Intn(30) == 0 {
			fmt.Fprintf(&sb, "/*w%d", len(out))
		}
		p := sb.String()
		key := structKey(p)
		if seen[key] {
			continue
		}
		seen[key] = true
		out = append(out, p)
	}
	return out
}

func replay(m *mon.M, raw json.RawMessage) {
	var c Case
	if err := json.Unmarshal(raw, &c); err != nil {
		m.Violate("bad-replay-case", err.Error(), nil)
		return
	}
	runCase(m, &c)
}
