// Package c05 monitors the denco trie router core: soundness, completeness, static
// precedence, literal-over-parameter preference, totality and build-order independence.
package c05

import (
	"encoding/json"
	"fmt"
	"math/rand"
	"net/http"
	"net/http/httptest"
	"net/url"
	"strings"

	"github.com/go-openapi/runtime/middleware/denco"

	"verif/gen"
	"verif/mon"
)

func init() {
	mon.Register(&mon.Property{
		ID:    "C05",
		Level: "exploration",
		Rule: "seeded pattern sets (static, :name, lit:name, =:name, trailing *name over a 6-word alphabet; names unique inside a pattern: in 5 sets of 8 unique in the whole set, in 2 of 8 drawn from a pool of ten short names shared between patterns, in 1 of 8 cut out of one string so that different name lists spell the same letters) each built in K random insertion orders; " +
			"lookup paths = instantiations with hostile parameter texts (incl. ':' '*' '#' '='), one-edit mutations, random bytes; oracle = naive per-pattern matcher written from the statement; the returned Params are also read through Params.Get. " +
			"1 set in 10 is also served through Mux.Build (GET only; GET+POST; or GET/POST/PUT/HEAD shorthands plus Handler(\"PATCH\") with every path requested under six methods): the handler that ran, its registration method and the params it received are judged by the reference restricted to the patterns registered for the request method. " +
			"classes shape:* count the rare input shapes per set/path (a shard that never produced one records harness:shape-missing/*). " +
			"non-trivial = (pattern-set hash, path) where the reference finds an instantiation or the path shares >= 1 leading segment with a pattern; distinct by that pair",
		Assumptions: []string{
			"pattern syntax: ':' starts a single-segment parameter named up to the next '/', '*' starts a wildcard named by the rest of the pattern; a record is parameterised only if it contains '/:' '/*' or '=:' (denco's rule), otherwise the whole key is a static literal",
			"patterns that use ':' '*' '#' as literal bytes are not generated (the router defines no syntax for them)",
			"pattern sets rejected by Build are not judged (1 set in 100 repeats a parameter name inside a pattern to exercise the refusal; the outcome is classed, and judged like any other set if Build accepts it)",
			"Params.Get(name) is judged only for the names of the matched pattern (it must return the text matched by the first placeholder of that name) and for one absent name (it must return \"\")",
			"the mux selects the table by the exact request method; methods are upper-case tokens",
			"parameter-vs-wildcard preference is not stated and not judged",
		},
		MinNontrivial: 200,
		Run:           run,
		Replay:        replay,
	})
}

// Case is one pattern set, the build orders and the looked-up paths.
type Case struct {
	Patterns []mon.Q `json:"patterns"`
	Orders   [][]int `json:"orders"`
	Paths    []mon.Q `json:"paths"`
	ViaMux   bool    `json:"via_mux,omitempty"`
	// MuxMethods: the mux registers every pattern under GET and the even-numbered ones under POST as
	// well; requests use GET, POST and PUT in turn (PUT has no routes: nothing may be found)
	MuxMethods bool `json:"mux_methods,omitempty"`
	// MuxMode 1 (implies ViaMux): pattern i is registered under GET, POST, PUT, HEAD (the shorthands) or
	// PATCH (Mux.Handler) by i%5, every third pattern under GET too (Mux.Handler("GET")); every path is
	// requested under GET, POST, PUT, HEAD, PATCH and DELETE (DELETE has no routes); the mux is built for the
	// first two orders only
	MuxMode int `json:"mux_mode,omitempty"`
	// SizeHint, when set, is assigned to Router.SizeHint before Build (the exported tuning knob)
	SizeHint *int `json:"size_hint,omitempty"`
	// Generated: the set comes from the generator (a replayed foreign case may hold anything)
	Generated bool `json:"generated,omitempty"`
}

// ---- reference model ----

type tok struct {
	kind byte // 'l' literal byte, 'p' single parameter, 'w' wildcard
	b    byte
	name string
}

type refPattern struct {
	text   string
	static bool
	toks   []tok
}

func parsePattern(p string) refPattern {
	rp := refPattern{text: p}
	if !(strings.Contains(p, "/:") || strings.Contains(p, "/*") || strings.Contains(p, "=:")) {
		rp.static = true
		return rp
	}
	for i := 0; i < len(p); {
		switch p[i] {
		case ':':
			j := i + 1
			for j < len(p) && p[j] != '/' {
				j++
			}
			rp.toks = append(rp.toks, tok{kind: 'p', name: p[i+1 : j]})
			i = j
		case '*':
			rp.toks = append(rp.toks, tok{kind: 'w', name: p[i+1:]})
			i = len(p)
		default:
			rp.toks = append(rp.toks, tok{kind: 'l', b: p[i]})
			i++
		}
	}
	return rp
}

// instantiate reports whether path instantiates the pattern, and with which texts.
func (rp *refPattern) instantiate(path string) ([]denco.Param, bool) {
	if rp.static {
		return nil, path == rp.text
	}
	var ps []denco.Param
	i := 0
	for _, t := range rp.toks {
		switch t.kind {
		case 'l':
			if i >= len(path) || path[i] != t.b {
				return nil, false
			}
			i++
		case 'p':
			j := i
			for j < len(path) && path[j] != '/' {
				j++
			}
			ps = append(ps, denco.Param{Name: t.name, Value: path[i:j]})
			i = j
		case 'w':
			ps = append(ps, denco.Param{Name: t.name, Value: path[i:]})
			i = len(path)
		}
	}
	return ps, i == len(path)
}

func allNonEmpty(ps []denco.Param) bool {
	for _, p := range ps {
		if p.Value == "" {
			return false
		}
	}
	return true
}

// literalBeats reports whether pattern a is owed precedence over pattern b on this path: at the
// first structural difference (walking both along the path) a has a literal where b has a parameter.
func literalBeats(a, b *refPattern, path string) bool {
	if a.static {
		return !b.static
	}
	if b.static {
		return false
	}
	ia, ib := 0, 0
	for ia < len(a.toks) && ib < len(b.toks) {
		ta, tb := a.toks[ia], b.toks[ib]
		switch {
		case ta.kind == 'l' && tb.kind == 'l':
			ia++
			ib++
		case ta.kind == 'p' && tb.kind == 'p':
			ia++
			ib++
		case ta.kind == 'w' && tb.kind == 'w':
			return false
		case ta.kind == 'l' && (tb.kind == 'p' || tb.kind == 'w'):
			return true
		default:
			return false
		}
	}
	return false
}

// ---- execution ----

type answer struct {
	found  bool
	data   string
	params []denco.Param
	raw    denco.Params // the very slice Lookup returned (not copied): see heldRaw
	panic  string
}

func (a answer) String() string {
	if a.panic != "" {
		return "panic(" + a.panic + ")"
	}
	if !a.found {
		return "notfound"
	}
	var sb strings.Builder
	sb.WriteString(a.data)
	for _, p := range a.params {
		fmt.Fprintf(&sb, " %s=%q", p.Name, p.Value)
	}
	return sb.String()
}

func lookup(rt *denco.Router, path string) (a answer) {
	defer func() {
		if r := recover(); r != nil {
			a = answer{panic: fmt.Sprint(r)}
		}
	}()
	d, ps, ok := rt.Lookup(path)
	a.found = ok
	if ok {
		if s, isS := d.(string); isS {
			a.data = s
		} else {
			a.data = fmt.Sprintf("<%T>", d)
		}
		a.params = append([]denco.Param(nil), ps...)
		a.raw = ps
	}
	return a
}

func reservedIn(path string) string {
	if strings.ContainsAny(path, ":*#") {
		return "reserved-byte-in-path"
	}
	return "plain-path"
}

// safeGet reads returned params through their accessor.
func safeGet(ps denco.Params, name string) (v string, panicked string) {
	defer func() {
		if r := recover(); r != nil {
			panicked = fmt.Sprint(r)
		}
	}()
	return ps.Get(name), ""
}

// absentName is a parameter name no generated pattern uses.
const absentName = "zz-absent"

type inst struct {
	rp *refPattern
	ps []denco.Param
}

type finding struct{ sig, detail string }

// judge applies the statement to ONE answer for ONE path. insts are the instantiations the reference found
// among the patterns of the table that was asked, byText those patterns by their text (= registered value).
// get reads the returned Params through Params.Get (nil: not observed).
func judge(who string, a answer, path string, insts []inst, byText map[string]*refPattern, get func(name string) (string, bool)) []finding {
	var out []finding
	if a.found {
		rp := byText[a.data]
		if rp == nil {
			return []finding{{"unsound-unknown-data", fmt.Sprintf("%s(%q) returned data %q that is no pattern registered in the table that was asked", who, path, a.data)}}
		}
		want, ok := rp.instantiate(path)
		if !ok {
			return []finding{{"unsound-not-instantiated", fmt.Sprintf("%s(%q) -> %s, but the path does not instantiate that pattern", who, path, a)}}
		}
		if !sameParams(want, a.params) {
			return []finding{{"unsound-params", fmt.Sprintf("%s(%q) -> %s, expected params %v", who, path, a, want)}}
		}
		if get != nil {
			// the list is right (just judged): read through the accessor, every name of the pattern yields the text of
			// the first placeholder of that name, a name that is not in the pattern yields ""
			seen := map[string]bool{}
			for _, w := range want {
				if seen[w.Name] {
					continue
				}
				seen[w.Name] = true
				if g, ok := get(w.Name); ok && g != w.Value {
					out = append(out, finding{"params-get-wrong", fmt.Sprintf("%s(%q) -> %s, but Params.Get(%q) = %q", who, path, a, w.Name, g)})
					break
				}
			}
			if !seen[absentName] {
				if g, ok := get(absentName); ok && g != "" {
					out = append(out, finding{"params-get-wrong", fmt.Sprintf("%s(%q) -> %s, but Params.Get(%q) = %q for a name that is not in the pattern", who, path, a, absentName, g)})
				}
			}
		}
		// literal preference
		for _, in := range insts {
			if in.rp != rp && allNonEmpty(in.ps) && literalBeats(in.rp, rp, path) {
				out = append(out, finding{"literal-not-preferred", fmt.Sprintf("%s(%q) -> %s although pattern %q (literal at the first difference) also matches", who, path, a, in.rp.text)})
				break
			}
		}
	} else {
		for _, in := range insts {
			if in.rp.static {
				out = append(out, finding{"static-miss", fmt.Sprintf("%s(%q) not found although it equals the parameter-free pattern", who, path)})
				break
			}
			if allNonEmpty(in.ps) {
				out = append(out, finding{"incomplete", fmt.Sprintf("%s(%q) not found although it instantiates %q with %v", who, path, in.rp.text, in.ps)})
				break
			}
		}
	}
	// static equality must return that very pattern
	if rp, ok := byText[path]; ok && rp.static && a.found && a.data != path {
		out = append(out, finding{"static-shadowed", fmt.Sprintf("%s(%q) -> %s although the path equals a parameter-free pattern", who, path, a)})
	}
	return out
}

// ---- the mux ----

// requestMethods: what mode 1 asks for every path (DELETE has no routes).
var requestMethods = []string{http.MethodGet, http.MethodPost, http.MethodPut, http.MethodHead, http.MethodPatch, http.MethodDelete}

// regMethods: the methods pattern number i is registered under, in registration order.
func regMethods(c *Case, i int) []string {
	if c.MuxMode == 1 {
		ms := []string{requestMethods[i%5]}
		if i%3 == 0 && ms[0] != http.MethodGet {
			ms = append(ms, http.MethodGet)
		}
		return ms
	}
	ms := []string{http.MethodGet}
	if c.MuxMethods && i%2 == 0 {
		ms = append(ms, http.MethodPost)
	}
	return ms
}

// register goes through the shorthand of the method for the first registration of a pattern and through
// Mux.Handler (free method string) for PATCH and for second registrations in mode 1.
func register(mux *denco.Mux, c *Case, nth int, method, pat string, hf denco.HandlerFunc) denco.Handler {
	if c.MuxMode == 1 && nth > 0 {
		return mux.Handler(method, pat, hf)
	}
	switch method {
	case http.MethodGet:
		return mux.GET(pat, hf)
	case http.MethodPost:
		return mux.POST(pat, hf)
	case http.MethodPut:
		return mux.PUT(pat, hf)
	case http.MethodHead:
		return mux.HEAD(pat, hf)
	}
	return mux.Handler(method, pat, hf)
}

// muxHandler is the handler registered for (method, pattern): it reports who it is, what it was handed, and
// what Params.Get answers for the names of its own pattern.
func muxHandler(method, pat string, names []string) denco.HandlerFunc {
	return func(w http.ResponseWriter, _ *http.Request, ps denco.Params) {
		w.Header().Set("X-Pattern", url.QueryEscape(pat))
		w.Header().Set("X-Reg-Method", method)
		for _, p := range ps {
			w.Header().Add("X-Param", url.QueryEscape(p.Name)+"="+url.QueryEscape(p.Value))
		}
		for _, n := range names {
			w.Header().Add("X-Get", url.QueryEscape(n)+"="+url.QueryEscape(ps.Get(n)))
		}
	}
}

func splitKV(kv string) (string, string) {
	i := strings.IndexByte(kv, '=')
	if i < 0 {
		return kv, ""
	}
	n, _ := url.QueryUnescape(kv[:i])
	v, _ := url.QueryUnescape(kv[i+1:])
	return n, v
}

// ---- shapes: what the evidence must show was generated ----

// requiredShapes are expected many times in every shard of a run; a shard that never saw one records
// harness:shape-missing/<shape> (a generator edit that silently stops producing a shape becomes visible).
var requiredShapes = []string{
	"shape:wildcard-after-literal", "shape:sizehint-0", "shape:sizehint-1", "shape:sizehint-2", "shape:sizehint-64",
	"shape:capture>=256B", "shape:pattern>=64B", "shape:pattern>=256B", "shape:static-with-midsegment-reserved",
	"shape:non-ascii-literal", "shape:names-shared-across-patterns", "shape:names-concat-collide",
	"shape:capture-starts-with-reserved", "shape:mux-mode-0", "shape:mux-mode-0-methods", "shape:mux-mode-1",
	"shape:duplicate-name-in-pattern", "shape:restconf-param", "shape:midsegment-param",
}

var shapeSeen = map[string]int{}

func shape(m *mon.M, s string) {
	shapeSeen[s]++
	m.Class(s)
}

func paramNames(rp *refPattern) []string {
	var ns []string
	for _, t := range rp.toks {
		if t.kind != 'l' {
			ns = append(ns, t.name)
		}
	}
	return ns
}

// setShapes classes one pattern set (once per set).
func setShapes(m *mon.M, c *Case, refs []refPattern) {
	has := map[string]bool{}
	nameOwner := map[string]int{}
	joined := map[string]string{} // names concatenated -> names joined with NUL
	for i := range refs {
		rp := &refs[i]
		n := len(rp.text)
		switch {
		case n >= 256:
			has["shape:pattern>=256B"], has["shape:pattern>=64B"] = true, true
		case n >= 64:
			has["shape:pattern>=64B"] = true
		}
		for j := 0; j < n; j++ {
			if rp.text[j] >= 0x80 {
				has["shape:non-ascii-literal"] = true
				break
			}
		}
		if rp.static {
			if strings.ContainsAny(rp.text, ":*") {
				has["shape:static-with-midsegment-reserved"] = true
			}
			continue
		}
		for j, t := range rp.toks {
			prev := byte('/')
			if j > 0 && rp.toks[j-1].kind == 'l' {
				prev = rp.toks[j-1].b
			}
			switch {
			case t.kind == 'w' && prev != '/':
				has["shape:wildcard-after-literal"] = true
			case t.kind == 'p' && prev == '=':
				has["shape:restconf-param"] = true
			case t.kind == 'p' && prev != '/':
				has["shape:midsegment-param"] = true
			}
		}
		ns := paramNames(rp)
		inPat := map[string]bool{}
		for _, nm := range ns {
			if inPat[nm] {
				has["shape:duplicate-name-in-pattern"] = true
			}
			inPat[nm] = true
			if o, ok := nameOwner[nm]; ok && o != i {
				has["shape:names-shared-across-patterns"] = true
			}
			nameOwner[nm] = i
		}
		cat, sep := strings.Join(ns, ""), strings.Join(ns, "\x00")
		if prev, ok := joined[cat]; ok && prev != sep {
			has["shape:names-concat-collide"] = true
		}
		joined[cat] = sep
	}
	if c.SizeHint != nil {
		has[fmt.Sprintf("shape:sizehint-%d", *c.SizeHint)] = true
	} else {
		has["shape:sizehint-default"] = true
	}
	if c.ViaMux {
		switch {
		case c.MuxMode == 1:
			has["shape:mux-mode-1"] = true
		case c.MuxMethods:
			has["shape:mux-mode-0-methods"] = true
		default:
			has["shape:mux-mode-0"] = true
		}
	}
	for s := range has {
		shape(m, s)
	}
}

func runCase(m *mon.M, c *Case) {
	pats := mon.SQ(c.Patterns)
	refs := make([]refPattern, len(pats))
	byText := map[string]*refPattern{}
	for i, p := range pats {
		refs[i] = parsePattern(p)
		byText[p] = &refs[i]
	}
	setShapes(m, c, refs)
	viaMux := c.ViaMux || c.MuxMode == 1
	// the table of every method the mux is given: method -> patterns registered under it, by text
	muxTables := map[string]map[string]*refPattern{}
	if viaMux {
		for i, p := range pats {
			for _, method := range regMethods(c, i) {
				if muxTables[method] == nil {
					muxTables[method] = map[string]*refPattern{}
				}
				muxTables[method][p] = &refs[i]
			}
		}
	}
	var routers []*denco.Router
	var postRouters []*denco.Router
	var muxes []http.Handler
	// the records are created once; every build after the first one receives THE SAME slice, reordered
	// in place (the way a caller re-sorts its table): whatever a build does to its input reaches the next
	recs := make([]denco.Record, len(pats))
	idx := make([]int, len(pats)) // idx[j] = pattern number of recs[j]
	for i := range pats {
		recs[i], idx[i] = denco.NewRecord(pats[i], pats[i]), i
	}
	for _, ord := range c.Orders {
		pos := make(map[int]int, len(idx))
		for j, i := range idx {
			pos[i] = j
		}
		for j, i := range ord { // bring pattern i to position j by swapping
			k := pos[i]
			if k != j {
				recs[j], recs[k] = recs[k], recs[j]
				pos[idx[j]], pos[i] = k, j
				idx[j], idx[k] = idx[k], idx[j]
			}
		}
		rt := denco.New()
		if c.SizeHint != nil {
			rt.SizeHint = *c.SizeHint
		}
		var berr error
		pv, st := mon.Catch(func() { berr = rt.Build(recs) })
		if pv != nil {
			m.Violate("build-panic", fmt.Sprintf("Build panicked: %v\n%s", pv, st), c)
			return
		}
		if berr != nil {
			if c.Generated {
				// generated sets are well formed (unique structures, unique names inside a pattern): Build has no
				// reason to refuse them, and a refusal silently shrinks what is explored
				m.Violate("build-rejects-wellformed-set", fmt.Sprintf("Build refused a generated set of %d patterns: %v", len(pats), berr), c)
			}
			m.Class("build-rejected")
			if viaMux {
				// the same set through Mux.Build (its refusal path); not judged: the statement speaks of accepted sets
				mux := denco.NewMux()
				var hs []denco.Handler
				for _, i := range ord {
					for nth, method := range regMethods(c, i) {
						hs = append(hs, register(mux, c, nth, method, pats[i], muxHandler(method, pats[i], nil)))
					}
				}
				var merr error
				if pv, st := mon.Catch(func() { _, merr = mux.Build(hs) }); pv != nil {
					m.Violate("mux-build-panic", fmt.Sprintf("Mux.Build panicked: %v\n%s", pv, st), c)
				} else if merr != nil {
					m.Class("mux-build-rejected")
				} else {
					m.Class("probe:mux-build-accepts-what-a-router-refused")
				}
			}
			return
		}
		routers = append(routers, rt)
		if viaMux && c.MuxMode == 1 && len(muxes) >= 2 {
			// mode 1 asks six methods per path: the mux is built for the first two orders only
			muxes = append(muxes, nil)
			postRouters = append(postRouters, nil)
		} else if viaMux {
			mux := denco.NewMux()
			var hs []denco.Handler
			var postRecs []denco.Record
			for _, i := range ord {
				pat := pats[i]
				names := append(paramNames(&refs[i]), absentName)
				for nth, method := range regMethods(c, i) {
					hs = append(hs, register(mux, c, nth, method, pat, muxHandler(method, pat, names)))
					if c.MuxMode == 0 && method == http.MethodPost {
						postRecs = append(postRecs, denco.NewRecord(pat, pat))
					}
				}
			}
			prt := denco.New()
			if len(postRecs) > 0 {
				_ = prt.Build(postRecs)
			}
			postRouters = append(postRouters, prt)
			var h http.Handler
			var merr error
			if pv, st := mon.Catch(func() { h, merr = mux.Build(hs) }); pv != nil {
				m.Violate("mux-build-panic", fmt.Sprintf("Mux.Build panicked: %v\n%s", pv, st), c)
				return
			}
			if merr != nil {
				if c.Generated {
					// every per-method table is a subset of a set Router.Build has just accepted
					m.Violate("mux-build-rejects-wellformed-set", fmt.Sprintf("Mux.Build refused handlers for a generated set of %d patterns: %v", len(pats), merr), c)
				}
				m.Class("mux-build-rejected")
				h = nil
			}
			muxes = append(muxes, h) // muxes[k] goes with routers[k]; nil: not built
		}
	}
	setHash := fmt.Sprintf("%x", mon.Hash64(strings.Join(sortedCopy(pats), "\x00")))
	heldRaw := make([][]denco.Param, len(routers))
	heldStr := make([]string, len(routers))
	for pi, qp := range c.Paths {
		path := string(qp)
		m.Eval(1)
		// reference
		var insts []inst
		for i := range refs {
			if ps, ok := refs[i].instantiate(path); ok {
				insts = append(insts, inst{&refs[i], ps})
			}
		}
		nontrivial := len(insts) > 0
		if !nontrivial {
			for _, p := range pats {
				if sharesFirstSegment(p, path) {
					nontrivial = true
					break
				}
			}
		}
		if nontrivial {
			m.NT(setHash + "|" + path)
		}
		for _, in := range insts {
			long, resv := false, false
			for _, p := range in.ps {
				if len(p.Value) >= 256 {
					long = true
				}
				if p.Value != "" && strings.IndexByte(":*#\x00", p.Value[0]) >= 0 {
					resv = true
				}
			}
			if long {
				shape(m, "shape:capture>=256B")
			}
			if resv {
				shape(m, "shape:capture-starts-with-reserved")
			}
		}
		feat := reservedIn(path)
		var first answer
		for k, rt := range routers {
			a := lookup(rt, path)
			// what an earlier Lookup handed out must not change under a later one (the caller still holds it)
			if k < len(heldRaw) && heldRaw[k] != nil && fmt.Sprint(heldRaw[k]) != heldStr[k] {
				m.Violate("earlier-result-altered-by-later-lookup/"+reservedIn(path), fmt.Sprintf("params of an earlier Lookup read %s before and %v after Lookup(%q)", heldStr[k], heldRaw[k], path), &Case{Patterns: c.Patterns, Orders: c.Orders[:k+1], Paths: c.Paths[:pi+1], SizeHint: c.SizeHint})
			}
			if k < len(heldRaw) {
				heldRaw[k], heldStr[k] = a.raw, fmt.Sprint(a.raw)
			}
			one := &Case{Patterns: c.Patterns, Orders: c.Orders[:k+1], Paths: []mon.Q{qp}, SizeHint: c.SizeHint}
			if a.panic != "" {
				m.Violate("lookup-panic/"+feat, fmt.Sprintf("Lookup(%q) panicked: %s", path, a.panic), one)
				continue
			}
			if k == 0 {
				first = a
			} else if a.String() != first.String() {
				two := &Case{Patterns: c.Patterns, Orders: c.Orders[:k+1], Paths: []mon.Q{qp}, SizeHint: c.SizeHint}
				m.Violate("order-dependent/"+feat, fmt.Sprintf("Lookup(%q): order#0 -> %s ; order#%d -> %s", path, first, k, a), two)
			}
			getPanic := ""
			get := func(name string) (string, bool) {
				v, p := safeGet(a.raw, name)
				if p != "" {
					getPanic = p
					return "", false
				}
				return v, true
			}
			for _, f := range judge("Lookup", a, path, insts, byText, get) {
				m.Violate(f.sig+"/"+feat, f.detail, one)
			}
			if getPanic != "" {
				m.Violate("params-get-panic/"+feat, fmt.Sprintf("Params.Get on the result of Lookup(%q) -> %s panicked: %s", path, a, getPanic), one)
			}
			if a.found {
				m.Class("found")
			} else {
				m.Class("notfound")
			}
		}
		// the http.Handler of Mux.Build (URL.Path fed directly)
		for k, h := range muxes {
			if k >= len(routers) || h == nil {
				continue
			}
			methods := []string{http.MethodGet}
			switch {
			case c.MuxMode == 1:
				methods = requestMethods
			case c.MuxMethods:
				methods = []string{[]string{http.MethodGet, http.MethodPost, http.MethodPut}[pi%3]}
			}
			for _, method := range methods {
				// mode 0 also compares with the answer of a Router built from the same records
				var want answer
				compare := c.MuxMode == 0
				if compare {
					switch method {
					case http.MethodGet:
						want = lookup(routers[k], path)
					case http.MethodPost:
						want = lookup(postRouters[k], path)
					}
				}
				rec := httptest.NewRecorder()
				req := &http.Request{Method: method, URL: &url.URL{Path: path}, Header: http.Header{}}
				pv, _ := mon.Catch(func() { h.ServeHTTP(rec, req) })
				one := &Case{Patterns: c.Patterns, Orders: c.Orders[:k+1], Paths: c.Paths[:pi+1], ViaMux: true, MuxMethods: c.MuxMethods, MuxMode: c.MuxMode, SizeHint: c.SizeHint}
				if c.MuxMode == 1 {
					one.Paths = []mon.Q{qp} // every path is asked under every method: one path replays alone
				}
				if pv != nil {
					if want.panic == "" {
						m.Violate("mux-panic/"+feat, fmt.Sprintf("mux.ServeHTTP(%s %q) panicked: %v", method, path, pv), one)
					}
					continue
				}
				got := answer{}
				regMethod := ""
				var gets map[string]string
				if xp := rec.Header().Get("X-Pattern"); xp != "" {
					got.found = true
					got.data, _ = url.QueryUnescape(xp)
					regMethod = rec.Header().Get("X-Reg-Method")
					for _, kv := range rec.Header().Values("X-Param") {
						n, v := splitKV(kv)
						got.params = append(got.params, denco.Param{Name: n, Value: v})
					}
					gets = map[string]string{}
					for _, kv := range rec.Header().Values("X-Get") {
						n, v := splitKV(kv)
						if _, dup := gets[n]; !dup {
							gets[n] = v
						}
					}
				}
				if compare && want.panic == "" && got.String() != want.String() {
					m.Violate("mux-disagrees/"+feat, fmt.Sprintf("mux for %s %q -> %s, Lookup -> %s", method, path, got, want), one)
				}
				// the reference, restricted to what was registered under the request method
				tbl := muxTables[method]
				var tinsts []inst
				for _, in := range insts {
					if tbl[in.rp.text] == in.rp {
						tinsts = append(tinsts, in)
					}
				}
				get := func(name string) (string, bool) { v, ok := gets[name]; return v, ok }
				for _, f := range judge("mux "+method+" ", got, path, tinsts, tbl, get) {
					m.Violate("mux-"+f.sig+"/"+feat, f.detail, one)
				}
				if got.found && regMethod != method && tbl[got.data] != nil {
					m.Violate("mux-wrong-method-table/"+feat, fmt.Sprintf("mux %s %q ran the handler registered under %s for %q", method, path, regMethod, got.data), one)
				}
				m.Class("mux")
				m.Class("mux:" + method)
			}
		}
	}
	if m.WantSample() {
		s := *c
		if len(s.Paths) > 4 {
			s.Paths = s.Paths[:4]
		}
		if len(s.Patterns) > 12 {
			s.Patterns = s.Patterns[:12]
			s.Orders = nil
		}
		m.Sample(s)
	}
}

func sameParams(a, b []denco.Param) bool {
	if len(a) != len(b) {
		return false
	}
	for i := range a {
		if a[i] != b[i] {
			return false
		}
	}
	return true
}

func sharesFirstSegment(p, path string) bool {
	seg := func(s string) string {
		if len(s) == 0 || s[0] != '/' {
			return ""
		}
		s = s[1:]
		if i := strings.IndexByte(s, '/'); i >= 0 {
			s = s[:i]
		}
		return s
	}
	a, b := seg(p), seg(path)
	return a != "" && a == b
}

func sortedCopy(l []string) []string {
	c := append([]string(nil), l...)
	for i := 1; i < len(c); i++ {
		for j := i; j > 0 && c[j] < c[j-1]; j-- {
			c[j], c[j-1] = c[j-1], c[j]
		}
	}
	return c
}

// ---- generation ----

// literalWords: the shared alphabet plus non-ASCII words (their UTF-8 bytes have the high bit set) and,
// for records that stay static, words with ':' or '*' in mid-segment (literal there by denco's own rule).
var literalWords = append(append([]string{}, gen.Words...), "manh\u00e3", "men\u00fa", "f\u00eate", "\u043a\u043d", "caf\u00e9", "\u00a3", "\u00aa", "\u00ba")

// longWords: literal words that carry a pattern (and the paths equal to it) across the lengths where
// fixed-width bookkeeping would wrap (31..33, 63..65, 127..129, 255..257 bytes).
var longWords = func() []string {
	var out []string
	for _, n := range []int{29, 30, 31, 32, 61, 62, 63, 64, 125, 126, 127, 128, 253, 254, 255, 256} {
		out = append(out, strings.Repeat("organizations-", n/14+1)[:n])
	}
	return out
}()

func word(r *rand.Rand) string {
	if r.Intn(40) == 0 {
		return longWords[r.Intn(len(longWords))]
	}
	if r.Intn(6) == 0 {
		return literalWords[r.Intn(len(literalWords))]
	}
	return gen.Pick(r, gen.Words)
}

func genPattern(r *rand.Rand, id int) string {
	nseg := 1 + r.Intn(4)
	var sb strings.Builder
	np := 0
	for s := 0; s < nseg; s++ {
		sb.WriteByte('/')
		switch k := r.Intn(20); {
		case k < 9:
			sb.WriteString(word(r))
		case k < 14:
			fmt.Fprintf(&sb, ":p%d_%d", id, np)
			np++
		case k < 16:
			sb.WriteString(word(r))
			fmt.Fprintf(&sb, ":p%d_%d", id, np)
			np++
		case k < 17:
			sb.WriteString(word(r))
			fmt.Fprintf(&sb, "=:p%d_%d", id, np)
			np++
		case k < 18 && s == nseg-1:
			if np > 0 && r.Intn(3) == 0 {
				// a wildcard after a literal, inside the last segment of a parameterised record
				sb.WriteString(word(r))
			}
			fmt.Fprintf(&sb, "*w%d", id)
			return sb.String()
		case k < 19:
			// empty segment (duplicate slash) or dotted word
			if r.Intn(2) == 0 {
				sb.WriteString(word(r) + "." + word(r))
			}
		default:
			sb.WriteString(word(r))
		}
	}
	if r.Intn(8) == 0 {
		sb.WriteByte('/')
	}
	if np == 0 && r.Intn(6) == 0 {
		// parameter-free, with ':' or '*' in mid-segment: still a static record (only "/:" "/*" "=:" start parameters)
		return sb.String() + []string{"/items:batchGet", "/a*b", "/v1:x/ab", "/x*"}[r.Intn(4)]
	}
	return sb.String()
}

// Name modes of a set. Names are always unique INSIDE a pattern (Build refuses a repeated one).
const (
	namesUnique = iota // p<id>_<n>, w<id>: no two patterns share a name
	namesPool          // drawn from namePool: the everyday table (/users/:id, /users/:id/posts, /:id) shares names
	namesCut           // the names of a pattern are consecutive pieces of ONE string: different lists spell the same letters
)

var namePool = []string{"id", "name", "a", "b", "c", "ab", "bc", "abc", "i", "d"}

const cutString = "abcdefghijkl"

func pickNameMode(r *rand.Rand) int {
	switch k := r.Intn(8); {
	case k < 2:
		return namesPool
	case k < 3:
		return namesCut
	}
	return namesUnique
}

// rename rewrites the placeholder names of a pattern (structure and literals unchanged).
func rename(p string, names []string) string {
	rp := parsePattern(p)
	if rp.static {
		return p
	}
	var sb strings.Builder
	k := 0
	for _, t := range rp.toks {
		switch t.kind {
		case 'l':
			sb.WriteByte(t.b)
		case 'p':
			sb.WriteByte(':')
			sb.WriteString(names[k])
			k++
		case 'w':
			sb.WriteByte('*')
			sb.WriteString(names[k])
			k++
		}
	}
	return sb.String()
}

// renameFor gives the pattern names of the set's mode; cutLen is the length of the string cut in namesCut.
func renameFor(r *rand.Rand, p string, mode, cutLen int) string {
	if mode == namesUnique {
		return p
	}
	rp := parsePattern(p)
	k := len(paramNames(&rp))
	if k == 0 {
		return p
	}
	names := make([]string, 0, k)
	switch mode {
	case namesPool:
		if k > len(namePool) {
			return p
		}
		for _, j := range r.Perm(len(namePool))[:k] {
			names = append(names, namePool[j])
		}
	case namesCut:
		if k > len(cutString) {
			return p
		}
		if cutLen < k {
			cutLen = k
		}
		// k-1 distinct cut points in 1..cutLen-1, ascending; the pieces are pairwise different (distinct letters)
		cuts := append([]int{}, r.Perm(cutLen - 1)[:k-1]...)
		for i := range cuts {
			cuts[i]++
		}
		for i := 1; i < len(cuts); i++ {
			for j := i; j > 0 && cuts[j] < cuts[j-1]; j-- {
				cuts[j], cuts[j-1] = cuts[j-1], cuts[j]
			}
		}
		prev := 0
		for _, ct := range append(cuts, cutLen) {
			names = append(names, cutString[prev:ct])
			prev = ct
		}
	}
	return rename(p, names)
}

func genSet(r *rand.Rand, n int) []string { return genSetNamed(r, n, namesUnique) }

func genSetNamed(r *rand.Rand, n, mode int) []string {
	seen := map[string]bool{}
	var out []string
	cutLen := 3 + r.Intn(4)
	for tries := 0; len(out) < n && tries < n*20; tries++ {
		p := genPattern(r, len(out))
		// structural key: names removed, so that no two patterns are structurally identical
		key := structKey(p)
		if seen[key] {
			continue
		}
		seen[key] = true
		out = append(out, renameFor(r, p, mode, cutLen))
	}
	return out
}

// repeatName makes one pattern of the set repeat a parameter name (the set is then no longer well formed:
// Build is expected to refuse it). It reports whether a pattern with two placeholders was found.
func repeatName(r *rand.Rand, pats []string) bool {
	for _, i := range r.Perm(len(pats)) {
		rp := parsePattern(pats[i])
		ns := paramNames(&rp)
		if len(ns) < 2 {
			continue
		}
		j := 1 + r.Intn(len(ns)-1)
		ns[j] = ns[r.Intn(j)]
		pats[i] = rename(pats[i], ns)
		return true
	}
	return false
}

func structKey(p string) string {
	rp := parsePattern(p)
	if rp.static {
		return "s" + p
	}
	var sb strings.Builder
	for _, t := range rp.toks {
		switch t.kind {
		case 'l':
			sb.WriteByte(t.b)
		case 'p':
			sb.WriteByte(':')
		case 'w':
			sb.WriteByte('*')
		}
	}
	return sb.String()
}

func instantiatePattern(r *rand.Rand, p string) string {
	rp := parsePattern(p)
	if rp.static {
		return p
	}
	var sb strings.Builder
	for _, t := range rp.toks {
		switch t.kind {
		case 'l':
			sb.WriteByte(t.b)
		case 'p':
			if r.Intn(12) == 0 {
				sb.WriteString(gen.Pick(r, gen.Words)) // a value that collides with a literal sibling
			} else if r.Intn(50) == 0 {
				sb.WriteString(gen.Value(r, 300, false)) // a long capture
			} else {
				sb.WriteString(gen.Value(r, 5, false))
			}
		case 'w':
			if r.Intn(50) == 0 {
				sb.WriteString(gen.Value(r, 300, true))
			} else {
				sb.WriteString(gen.Value(r, 8, true))
			}
		}
	}
	return sb.String()
}

func mutate(r *rand.Rand, s string) string {
	b := []byte(s)
	switch r.Intn(5) {
	case 0:
		if len(b) > 0 {
			i := r.Intn(len(b))
			b = append(b[:i], b[i+1:]...)
		}
	case 1:
		i := r.Intn(len(b) + 1)
		c := gen.HostileBytes[r.Intn(len(gen.HostileBytes))]
		if r.Intn(2) == 0 {
			c = "/ab:x*#="[r.Intn(8)]
		}
		b = append(b[:i], append([]byte{c}, b[i:]...)...)
	case 2:
		if len(b) > 0 {
			b[r.Intn(len(b))] = "/ab:x*#="[r.Intn(8)]
		}
	case 3:
		b = append(b, '/')
	case 4:
		if len(b) > 1 {
			b = b[:r.Intn(len(b))]
		}
	}
	return string(b)
}

const rawAlphabet = "/ab:x*#=\x00\xff."

func genPaths(r *rand.Rand, pats []string, n int) []string {
	out := make([]string, 0, n)
	for len(out) < n {
		switch k := r.Intn(10); {
		case k < 5:
			out = append(out, instantiatePattern(r, pats[r.Intn(len(pats))]))
		case k < 8:
			out = append(out, mutate(r, instantiatePattern(r, pats[r.Intn(len(pats))])))
		case k < 9:
			out = append(out, pats[r.Intn(len(pats))]) // the pattern text itself, with its ':' and '*'
		default:
			nb := r.Intn(12)
			b := make([]byte, nb)
			for i := range b {
				b[i] = rawAlphabet[r.Intn(len(rawAlphabet))]
			}
			out = append(out, "/"+string(b))
		}
	}
	for i := range out {
		if len(out[i]) > 1500 {
			out[i] = out[i][:1500]
		}
	}
	return out
}

func genCase(r *rand.Rand, maxPat, norders, npaths int) *Case {
	n := 1 + r.Intn(maxPat)
	pats := genSetNamed(r, n, pickNameMode(r))
	generated := true
	if r.Intn(100) == 0 && repeatName(r, pats) {
		generated = false // not well formed any more: a refusal by Build is no finding
	}
	c := &Case{Patterns: mon.QS(pats)}
	for k := 0; k < norders; k++ {
		c.Orders = append(c.Orders, r.Perm(len(pats)))
	}
	c.Paths = mon.QS(genPaths(r, pats, npaths))
	c.Generated = generated
	c.ViaMux = r.Intn(10) == 0
	if c.ViaMux {
		switch r.Intn(4) {
		case 0:
			c.MuxMethods = true
		case 1, 2:
			c.MuxMode = 1
		}
	}
	if r.Intn(4) == 0 {
		h := []int{0, 1, 2, 64}[r.Intn(4)]
		c.SizeHint = &h
	}
	return c
}

func run(m *mon.M) {
	r := m.Rand("sets")
	nsets := m.N(8000, 100000)
	norders := m.N(4, 8)
	for i := 0; i < nsets; i++ {
		maxPat := 12
		if i%5 == 0 {
			maxPat = 40
		}
		c := genCase(r, maxPat, norders, 40)
		m.Begin(c)
		runCase(m, c)
	}
	// ladders: many parameter-capable nodes along ONE literal walk (the lookup keeps a candidate per node it
	// passes and backtracks to them), ended by a catch-all
	nl := m.N(60, 2000)
	for i := 0; i < nl; i++ {
		w := word(r)
		depth := 6 + r.Intn(14)
		var pats []string
		shared := r.Intn(2) == 0 // every rung and the catch-all use the same name
		for k := 1; k <= depth; k++ {
			if shared {
				pats = append(pats, strings.Repeat("/"+w, k)+"/:id/x")
			} else {
				pats = append(pats, strings.Repeat("/"+w, k)+fmt.Sprintf("/:p%d/x", k))
			}
		}
		if shared {
			pats = append(pats, "/*id")
		} else {
			pats = append(pats, "/*rest")
		}
		c := &Case{Patterns: mon.QS(pats), Generated: true}
		for k := 0; k < 3; k++ {
			c.Orders = append(c.Orders, r.Perm(len(pats)))
		}
		var paths []string
		for k := 1; k <= depth+1; k++ {
			paths = append(paths, strings.Repeat("/"+w, k)+"/q/r", strings.Repeat("/"+w, k)+"/q/x", strings.Repeat("/"+w, k))
		}
		c.Paths = mon.QS(paths)
		m.Begin(c)
		runCase(m, c)
		m.Class("ladder-set")
	}
	// large tables
	big := m.N(3, 30)
	for i := 0; i < big; i++ {
		size := 200 + r.Intn(m.N(400, 2800))
		if i == 0 && m.Shard == 0 {
			size = 1500 // "thousands of records" in the quick tier too
		}
		pats := genBigSet(r, size)
		if mode := i % 3; mode != namesUnique {
			// 1: pool names shared by hundreds of records, 2: name lists that spell the same letters
			cutLen := 3 + r.Intn(6)
			for j := range pats {
				pats[j] = renameFor(r, pats[j], mode, cutLen)
			}
		}
		c := &Case{Patterns: mon.QS(pats), Generated: true}
		for k := 0; k < 3; k++ {
			c.Orders = append(c.Orders, r.Perm(len(pats)))
		}
		c.Paths = mon.QS(genPaths(r, pats, 400))
		m.Begin(c) // the case itself (a few thousand short strings): a worker death leaves a witness that replays
		runCase(m, c)
		m.Class("big-set")
	}
	// every shard is expected to have produced every rare shape many times over
	for _, s := range requiredShapes {
		if shapeSeen[s] == 0 {
			m.Class("harness:shape-missing/" + s)
		}
	}
}

// genBigSet widens the alphabet so that thousands of structurally distinct patterns exist.
func genBigSet(r *rand.Rand, n int) []string {
	seen := map[string]bool{}
	var out []string
	words := append([]string{}, gen.Words...)
	for i := 0; i < 30; i++ {
		words = append(words, fmt.Sprintf("w%d", i))
	}
	for tries := 0; len(out) < n && tries < n*10; tries++ {
		nseg := 1 + r.Intn(5)
		var sb strings.Builder
		np := 0
		for s := 0; s < nseg; s++ {
			sb.WriteByte('/')
			switch k := r.Intn(10); {
			case k < 6:
				sb.WriteString(words[r.Intn(len(words))])
			case k < 9:
				fmt.Fprintf(&sb, ":p%d_%d", len(out), np)
				np++
			default:
				sb.WriteString(words[r.Intn(len(words))])
				fmt.Fprintf(&sb, ":p%d_%d", len(out), np)
				np++
			}
		}
		if r.Intn(30) == 0 {
			fmt.Fprintf(&sb, "/*w%d", len(out))
		}
		p := sb.String()
		key := structKey(p)
		if seen[key] {
			continue
		}
		seen[key] = true
		out = append(out, p)
	}
	return out
}

func replay(m *mon.M, raw json.RawMessage) {
	var c Case
	if err := json.Unmarshal(raw, &c); err != nil {
		m.Violate("bad-replay-case", err.Error(), nil)
		return
	}
	runCase(m, &c)
}
