// Package c10 monitors the URL built by the client runtime: escaped substitution of path
// parameters, preserved segment shape, order independence, three-level query precedence and
// the https preference among several offered schemes.
package c10

import (
	"context"
	"encoding/json"
	"fmt"
	"io"
	"math/rand"
	"net/http"
	"net/url"
	"sort"
	"strings"

	"github.com/go-openapi/strfmt"

	"github.com/go-openapi/runtime"
	"github.com/go-openapi/runtime/client"

	"verif/gen"
	"verif/mon"
)

func init() {
	mon.Register(&mon.Property{
		ID:    "C10",
		Level: "exploration",
		Rule: "seeded (base path, path pattern, path-value map, caller query set, transport schemes, operation schemes) tuples; base paths with/without leading or trailing slash, " +
			"with static query and placeholders; patterns with 0-5 segments (static, {name}, mixed pre{name}, {a}.{b}, repeated names), optional trailing slash and static query; " +
			"values from a hostile pool ('' '.' '..' '/' '?' '#' '%2F' '{other}' non-UTF-8, controls) and random bytes; query names from a 7-name pool to force collisions. " +
			"Every case is built >= 6 times (8 in thorough) through client.New(...).CreateHttpRequest with different SetPathParam/SetQueryParam call orders (Go map order varies per build); " +
			"a third of the cases make all their builds on ONE Runtime on which 0-3 other operations (own patterns with static queries, values, caller queries, scheme lists) were built first, a third of those on a Runtime created without schemes; " +
			"entry points client.New, client.NewWithClient and a base path assigned to Runtime.BasePath; in a quarter of the cases one path value and/or one query entry is set by the authentication writer (ClientOperation.AuthInfo or Runtime.DefaultAuthentication) instead of the params writer; " +
			"a third of the shared-Runtime cases build the other operations while Runtime.BasePath and Runtime.Host hold other values (the case's own are assigned to the fields afterwards); " +
			"1% of the values and a few static words are 63..4096 bytes long with reserved bytes at the ends and at the 64-byte boundaries; a third of the static queries leave '/' ':' '@' ',' unencoded and a quarter of their values look like paths or URLs ('https://h/cb' '/srv/data/' 'a/../b' 'src/./gen' '//'); " +
			"values with '$' ('$1' '${a}' '$$' ...), placeholder names that are siblings under pattern matching ('a.b' 'a-b' 'axb'); " +
			"one placeholder in ten (one in six of the base path's) has a name outside the unreserved set: a space, non-ASCII letters, '^' '|' '\"' '<' '>' '\\' '`', sub-delimiters, ':' '@' '[' ']' ('user id' 'straße' 'x^y' 'a|b' '名前' and 1-4 random such runes); " +
			"operation IDs: the case's operation has ID 'op', one of a 6-ID pool or none; a third of the operations built before it on the same Runtime carry the same ID (or likewise none), a quarter of those are the case's own pattern with other values; a fifth of the earlier operations are sent with Runtime.Submit instead of built; " +
			"one case in twenty is also sent once, through Runtime.Submit or the Submit of the Runtime's opentracing / opentelemetry wrapper (context without span), into a recording RoundTripper (no network): the URL the transport is handed is judged like the built ones and must be the same; " +
			"oracle = reference builder written from the statement. non-trivial = case with >= 1 placeholder whose value needs escaping, or >= 1 query-name collision between caller/pattern/base; " +
			"distinct by (base, pattern, values, caller query)",
		Assumptions: []string{
			"static (non-placeholder) text of base path and pattern is restricted to [A-Za-z0-9._~-]: percent-escapes, '{' '}' or other reserved bytes in static text are not generated (the statement defines no syntax for them)",
			"a placeholder name is the text between '{' and the next '}': any valid UTF-8 without '/', '?', '#', '%', '{', '}' and control bytes (generated: unreserved bytes, space, non-ASCII letters, ^ | \" < > \\ ` : @ , ; = & + $ ! * ' ( ) [ ]); the name does not enter the URL",
			"a pattern without leading slash whose first segment holds a ':' (only a placeholder name can: '{a:b}/x') is not a relative reference (RFC 3986 4.2) and is not judged; with a leading slash, or in any later segment, such a name is judged like any other",
			"ClientOperation.ID is a free label: it does not enter the URL, and two operations of one Runtime may carry the same ID or none",
			"every placeholder that occurs in base path or pattern has a value set; patterns with an unset placeholder are not judged",
			"'joined' means: the non-empty segments of the base path followed by the non-empty segments of the pattern; '.' and '..' as static segments and inner '//' of a template are not generated",
			"only the pattern's trailing slash is owed; pattern \"/\" or \"\" is the root, not a trailing slash; the base path's own trailing slash is not owed",
			"scheme: the transport-level list, when non-empty, is the offered list, otherwise the operation-level list; with no list at all the default scheme is not judged; a single offered scheme must be chosen as is",
			"a caller query parameter set with zero values is not generated; the order of different query names in the encoded query is not judged (per-name value order is)",
			"static query strings are well-formed name=value pairs (names and values percent-encoded by the generator; '/' ':' '@' ',', which RFC 3986 allows as they are in a query, are sometimes left unencoded and then stand for themselves)",
			"a parameter set by the authentication writer is a caller-level parameter like one set by the params writer",
			"the URL the client builds is the URL of the request it hands to its transport: what Submit sends is judged with the same oracle as what CreateHttpRequest returns, and a Submit that fails where the build succeeds is a build error",
			"the URL of an operation is a function of the Runtime's configuration (what the exported fields Host and BasePath hold when the operation is built) and of the operation: what was built before on the same Runtime, and under which earlier configuration, does not enter the expectation",
		},
		MinNontrivial: 500,
		Run:           run,
		Replay:        replay,
	})
}

// KV is a path parameter (name, value).
type KV struct {
	Name  string `json:"name"`
	Value mon.Q  `json:"value"`
}

// QP is one caller-side SetQueryParam call.
type QP struct {
	Name   mon.Q   `json:"name"`
	Values []mon.Q `json:"values"`
}

// Case is one URL construction problem and the call orders it is built with.
type Case struct {
	Host     string   `json:"host"`
	Method   string   `json:"method"`
	BasePath mon.Q    `json:"base_path"` // as given to client.New (may carry ?query)
	Pattern  mon.Q    `json:"pattern"`   // as given in ClientOperation.PathPattern (may carry ?query)
	Params   []KV     `json:"params"`
	Query    []QP     `json:"query,omitempty"`
	TSchemes []string `json:"transport_schemes,omitempty"`
	OSchemes []string `json:"operation_schemes,omitempty"`
	// Orders are permutations of the call list (indices < len(Params) are SetPathParam calls,
	// the others SetQueryParam calls). Each order is built Repeat times (0 = once).
	Orders [][]int `json:"orders"`
	Repeat int     `json:"repeat,omitempty"`

	// Entry is how the Runtime is obtained: "" = client.New, "with-client" = client.NewWithClient,
	// "field" = client.New(host, "/", schemes) followed by a direct assignment of Runtime.BasePath.
	Entry string `json:"entry,omitempty"`
	// Shared: all the builds of this case are made on ONE Runtime (after the Before operations were
	// built on it); otherwise every build gets a fresh Runtime (on which Before is built first).
	Shared bool `json:"shared_runtime,omitempty"`
	// Before are other operations built on the same Runtime before this case's own builds. They are
	// not judged here; the URL of this case must not depend on them.
	Before []Op `json:"before,omitempty"`
	// AuthCalls are the call indices (same numbering as Orders) that are made by the authentication
	// writer instead of the Params writer; AuthDefault routes that writer through
	// Runtime.DefaultAuthentication instead of ClientOperation.AuthInfo.
	AuthCalls   []int `json:"auth_calls,omitempty"`
	AuthDefault bool  `json:"auth_default,omitempty"`
	// Reassign: the Before operations are built while the exported fields Runtime.BasePath and
	// Runtime.Host hold BeforeBasePath and BeforeHost; the case's own base path and host are assigned
	// to the fields afterwards, before the case's builds. The URL of the case is a function of what
	// the fields hold when it is built.
	Reassign       bool   `json:"reassign_fields,omitempty"`
	BeforeBasePath mon.Q  `json:"before_base_path,omitempty"`
	BeforeHost     string `json:"before_host,omitempty"`
	// Submit: after its CreateHttpRequest builds the case is also sent once (first call order) into a recording
	// RoundTripper (no network), through "runtime" = Runtime.Submit, "opentracing" = Runtime.WithOpenTracing().Submit
	// or "opentelemetry" = Runtime.WithOpenTelemetry().Submit (both with a context that carries no span). The URL
	// of the request the transport is handed is the URL the client built: it is judged like the others and must
	// be the same.
	Submit string `json:"submit,omitempty"`
	// OpID is the ClientOperation.ID of the case's operation ("" = "op", as every case had before the field
	// existed); NoOpID sends it without an ID. The ID is a free label: it does not enter the URL.
	OpID   string `json:"op_id,omitempty"`
	NoOpID bool   `json:"no_op_id,omitempty"`
}

func (c *Case) opID() string {
	switch {
	case c.NoOpID:
		return ""
	case c.OpID == "":
		return "op"
	}
	return c.OpID
}

// Op is an operation built on a shared Runtime before the case proper.
type Op struct {
	Method   string   `json:"method,omitempty"`
	Pattern  mon.Q    `json:"pattern"`
	Params   []KV     `json:"params,omitempty"`
	Query    []QP     `json:"query,omitempty"`
	OSchemes []string `json:"operation_schemes,omitempty"`
	// ID is the ClientOperation.ID ("" = "before"); NoID sends the operation without an ID. Via "submit" sends
	// the operation through Runtime.Submit (into the recording transport) instead of building it with
	// CreateHttpRequest.
	ID   string `json:"id,omitempty"`
	NoID bool   `json:"no_id,omitempty"`
	Via  string `json:"via,omitempty"`
}

func (o *Op) opID() string {
	switch {
	case o.NoID:
		return ""
	case o.ID == "":
		return "before"
	}
	return o.ID
}

// ---------------------------------------------------------------------------------------------
// reference model (written from the statement)

type part struct {
	lit  string
	name string // placeholder when non-empty
}

type refURL struct {
	segs      [][]part // template segments of base ⊕ pattern
	trailing  bool
	baseQ     []kvs
	patQ      []kvs
	unsetName string
}

type kvs struct {
	name   string
	values []string
}

func pctDecode(s string, plusIsSpace bool) (string, bool) {
	var sb strings.Builder
	for i := 0; i < len(s); i++ {
		switch {
		case s[i] == '%':
			if i+2 >= len(s) {
				return "", false
			}
			h, ok1 := unhex(s[i+1])
			l, ok2 := unhex(s[i+2])
			if !ok1 || !ok2 {
				return "", false
			}
			sb.WriteByte(h<<4 | l)
			i += 2
		case s[i] == '+' && plusIsSpace:
			sb.WriteByte(' ')
		default:
			sb.WriteByte(s[i])
		}
	}
	return sb.String(), true
}

func unhex(c byte) (byte, bool) {
	switch {
	case '0' <= c && c <= '9':
		return c - '0', true
	case 'a' <= c && c <= 'f':
		return c - 'a' + 10, true
	case 'A' <= c && c <= 'F':
		return c - 'A' + 10, true
	}
	return 0, false
}

// parseQuery splits a raw query into ordered (name, values) groups; ok is false when malformed.
func parseQuery(raw string) ([]kvs, bool) {
	var out []kvs
	idx := map[string]int{}
	if raw == "" {
		return nil, true
	}
	for _, pair := range strings.Split(raw, "&") {
		if pair == "" {
			continue
		}
		n, v := pair, ""
		if i := strings.IndexByte(pair, '='); i >= 0 {
			n, v = pair[:i], pair[i+1:]
		}
		dn, ok1 := pctDecode(n, true)
		dv, ok2 := pctDecode(v, true)
		if !ok1 || !ok2 {
			return nil, false
		}
		if i, seen := idx[dn]; seen {
			out[i].values = append(out[i].values, dv)
		} else {
			idx[dn] = len(out)
			out = append(out, kvs{name: dn, values: []string{dv}})
		}
	}
	return out, true
}

func splitTemplate(s string) (pathPart, rawQuery string) {
	if i := strings.IndexByte(s, '?'); i >= 0 {
		return s[:i], s[i+1:]
	}
	return s, ""
}

func parseSeg(seg string, have map[string]string) ([]part, string) {
	var ps []part
	for len(seg) > 0 {
		o := strings.IndexByte(seg, '{')
		if o < 0 {
			ps = append(ps, part{lit: seg})
			break
		}
		c := strings.IndexByte(seg[o:], '}')
		if c < 0 {
			ps = append(ps, part{lit: seg})
			break
		}
		if o > 0 {
			ps = append(ps, part{lit: seg[:o]})
		}
		name := seg[o+1 : o+c]
		if _, ok := have[name]; !ok {
			return nil, name
		}
		ps = append(ps, part{name: name})
		seg = seg[o+c+1:]
	}
	return ps, ""
}

func buildRef(c *Case, values map[string]string) (*refURL, bool) {
	ref := &refURL{}
	bp, bq := splitTemplate(string(c.BasePath))
	pp, pq := splitTemplate(string(c.Pattern))
	var ok bool
	if ref.baseQ, ok = parseQuery(bq); !ok {
		return nil, false
	}
	if ref.patQ, ok = parseQuery(pq); !ok {
		return nil, false
	}
	for _, tpl := range []string{bp, pp} {
		for _, seg := range strings.Split(tpl, "/") {
			if seg == "" {
				continue
			}
			ps, unset := parseSeg(seg, values)
			if unset != "" {
				ref.unsetName = unset
				return ref, true
			}
			ref.segs = append(ref.segs, ps)
		}
	}
	ref.trailing = pp != "" && pp != "/" && strings.HasSuffix(pp, "/")
	return ref, true
}

// expectedSegments returns the unescaped text every path segment must decode to, in the shape
// of strings.Split(escapedPath, "/") (leading "" for the root, trailing "" for a trailing slash).
func (ref *refURL) expectedSegments(values map[string]string) []string {
	out := []string{""}
	for _, seg := range ref.segs {
		var sb strings.Builder
		for _, p := range seg {
			if p.name != "" {
				sb.WriteString(values[p.name])
			} else {
				sb.WriteString(p.lit)
			}
		}
		out = append(out, sb.String())
	}
	if len(ref.segs) == 0 || ref.trailing {
		out = append(out, "")
	}
	return out
}

// expectedQuery applies caller > pattern > base.
func (ref *refURL) expectedQuery(c *Case) (map[string][]string, map[string]string) {
	exp := map[string][]string{}
	src := map[string]string{}
	for _, g := range ref.baseQ {
		exp[g.name] = g.values
		src[g.name] = "base"
	}
	for _, g := range ref.patQ {
		exp[g.name] = g.values
		src[g.name] = "pattern"
	}
	for _, q := range c.Query {
		exp[string(q.Name)] = mon.SQ(q.Values)
		src[string(q.Name)] = "caller"
	}
	return exp, src
}

func expectedScheme(c *Case) (want string, among []string) {
	offered := c.TSchemes
	if len(offered) == 0 {
		offered = c.OSchemes
	}
	if len(offered) == 0 {
		return "", nil
	}
	if len(offered) > 1 {
		for _, s := range offered {
			if s == "https" {
				return "https", offered
			}
		}
	}
	return "", offered
}

// ---------------------------------------------------------------------------------------------
// features (for narrow signatures)

// featureOf classifies one value by the byte class most likely to matter.
func featureOf(v string) string {
	switch {
	case v == "":
		return "empty-value"
	case v == "." || v == "..":
		return "dot-value"
	case strings.Contains(v, "{") && strings.Contains(v, "}"):
		return "placeholder-like-value"
	case strings.Contains(v, "/"):
		return "slash-in-value"
	case strings.Contains(v, "?"):
		return "question-in-value"
	case strings.Contains(v, "#"):
		return "hash-in-value"
	case strings.Contains(v, "%"):
		return "percent-in-value"
	case strings.Contains(v, "$"):
		return "dollar-in-value"
	case needsEscape(v):
		return "reserved-byte-in-value"
	}
	return "plain-values"
}

var featureRank = []string{"empty-value", "dot-value", "placeholder-like-value", "slash-in-value", "question-in-value", "hash-in-value", "percent-in-value", "dollar-in-value", "reserved-byte-in-value", "plain-values"}

func strongest(feats map[string]bool) string {
	for _, f := range featureRank {
		if feats[f] {
			return f
		}
	}
	return "plain-values"
}

// valueFeature: strongest feature among the values the templates actually use.
func valueFeature(c *Case, ref *refURL) string {
	used := usedNames(ref)
	feats := map[string]bool{}
	for _, p := range c.Params {
		if ref == nil || used[p.Name] {
			feats[featureOf(string(p.Value))] = true
		}
	}
	return strongest(feats)
}

func usedNames(ref *refURL) map[string]bool {
	used := map[string]bool{}
	if ref != nil {
		for _, seg := range ref.segs {
			for _, p := range seg {
				if p.name != "" {
					used[p.name] = true
				}
			}
		}
	}
	return used
}

// segFeature: strongest feature among the values of one template segment.
func segFeature(seg []part, values map[string]string) string {
	feats := map[string]bool{}
	for _, p := range seg {
		if p.name != "" {
			feats[featureOf(values[p.name])] = true
		}
	}
	return strongest(feats)
}

// culpritFeature looks for a single value that alone (all others replaced by a plain word)
// still breaks the shape of the path, and returns its feature; otherwise the strongest feature.
func culpritFeature(c *Case, ref *refURL, values map[string]string, ord []int) string {
	if len(ref.segs) > 0 {
		allEmptyFirst := true
		for _, p := range ref.segs[0] {
			if p.name == "" || values[p.name] != "" {
				allEmptyFirst = false
			}
		}
		if allEmptyFirst {
			return "empty-value-in-first-segment"
		}
	}
	used := usedNames(ref)
	for i, p := range c.Params {
		if !used[p.Name] {
			continue
		}
		vc := *c
		vc.Params = make([]KV, len(c.Params))
		vv := map[string]string{}
		for j, q := range c.Params {
			vc.Params[j] = KV{Name: q.Name, Value: "v"}
			if j == i {
				vc.Params[j].Value = q.Value
			}
			vv[q.Name] = string(vc.Params[j].Value)
		}
		b := buildOnce(&vc, ord)
		want := ref.expectedSegments(vv)
		if b.err != "" || b.panicked != "" || b.escPath == "" || len(strings.Split(b.escPath, "/")) != len(want) {
			return featureOf(string(p.Value))
		}
	}
	return valueFeature(c, ref)
}

func needsEscape(v string) bool {
	for i := 0; i < len(v); i++ {
		b := v[i]
		if !('a' <= b && b <= 'z' || 'A' <= b && b <= 'Z' || '0' <= b && b <= '9' || b == '-' || b == '_' || b == '.' || b == '~') {
			return true
		}
	}
	return false
}

// ---------------------------------------------------------------------------------------------
// execution

type built struct {
	err       string
	panicked  string
	urlString string
	scheme    string
	host      string
	reqHost   string
	escPath   string
	rawQuery  string
	fragment  string
	via       string // "" = CreateHttpRequest; else the Submit entry point whose transport recorded this URL
}

// recorder is the transport of every Runtime of this monitor: it records the URL of the request it is handed
// and answers 200 without any network.
type recorder struct {
	calls int
	got   built
}

func (rc *recorder) RoundTrip(r *http.Request) (*http.Response, error) {
	rc.calls++
	rc.got = observe(r)
	return &http.Response{StatusCode: 200, Status: "200 OK", Proto: "HTTP/1.1", ProtoMajor: 1, ProtoMinor: 1,
		Header: http.Header{"Content-Type": {"application/json"}}, Body: io.NopCloser(strings.NewReader("{}")), Request: r}, nil
}

// observe reads what a request says about its URL.
func observe(req *http.Request) built {
	var b built
	if req == nil || req.URL == nil {
		b.err = "nil request or URL without error"
		return b
	}
	b.urlString = req.URL.String()
	b.scheme = req.URL.Scheme
	b.host = req.URL.Host
	b.reqHost = req.Host
	b.escPath = req.URL.EscapedPath()
	b.rawQuery = req.URL.RawQuery
	b.fragment = req.URL.Fragment + req.URL.RawFragment
	return b
}

// open obtains the Runtime of a case through its entry point and builds the Before operations on it.
func open(c *Case) (*client.Runtime, *recorder) {
	var rt *client.Runtime
	rec := &recorder{}
	ts := append([]string(nil), c.TSchemes...) // the oracle keeps its own list
	switch c.Entry {
	case "with-client":
		rt = client.NewWithClient(c.Host, string(c.BasePath), ts, &http.Client{Transport: rec})
	case "field":
		rt = client.New(c.Host, "/", ts)
		rt.BasePath = string(c.BasePath)
	default:
		rt = client.New(c.Host, string(c.BasePath), ts)
	}
	rt.Transport = rec // never the network, whatever is submitted
	if c.Reassign {
		rt.BasePath = string(c.BeforeBasePath)
		rt.Host = c.BeforeHost
		defer func() {
			rt.BasePath = string(c.BasePath)
			rt.Host = c.Host
		}()
	}
	for i := range c.Before {
		o := &c.Before[i]
		writer := runtime.ClientRequestWriterFunc(func(req runtime.ClientRequest, _ strfmt.Registry) error {
			for _, p := range o.Params {
				_ = req.SetPathParam(p.Name, string(p.Value))
			}
			for _, q := range o.Query {
				_ = req.SetQueryParam(string(q.Name), mon.SQ(q.Values)...)
			}
			return nil
		})
		method := o.Method
		if method == "" {
			method = "GET"
		}
		op := &runtime.ClientOperation{ID: o.opID(), Method: method, PathPattern: string(o.Pattern), Schemes: append([]string(nil), o.OSchemes...), Params: writer}
		if o.Via == "submit" {
			op.Reader = runtime.ClientResponseReaderFunc(func(runtime.ClientResponse, runtime.Consumer) (interface{}, error) { return nil, nil })
			mon.Catch(func() { _, _ = rt.Submit(op) })
			continue
		}
		mon.Catch(func() { _, _ = rt.CreateHttpRequest(op) })
	}
	return rt, rec
}

// buildOnce builds the case on a Runtime of its own.
func buildOnce(c *Case, order []int) built {
	rt, _ := open(c)
	return buildOn(rt, c, order)
}

// rebuild makes the build that gave b once more, on a Runtime of the case c (a variant of b's own case).
func rebuild(c *Case, order []int, b built) built {
	if b.via != "" {
		rt, rec := open(c)
		return submitOn(rt, rec, c, order)
	}
	return buildOnce(c, order)
}

// operation makes the ClientOperation of the case, whose writers make the calls in the given order, and
// installs the authentication writer where the case wants it.
func operation(rt *client.Runtime, c *Case, order []int) *runtime.ClientOperation {
	np := len(c.Params)
	viaAuth := map[int]bool{}
	for _, i := range c.AuthCalls {
		viaAuth[i] = true
	}
	calls := func(req runtime.ClientRequest, auth bool) error {
		for _, i := range order {
			if viaAuth[i] != auth {
				continue
			}
			switch {
			case i < np:
				if err := req.SetPathParam(c.Params[i].Name, string(c.Params[i].Value)); err != nil {
					return err
				}
			case i-np < len(c.Query):
				q := c.Query[i-np]
				if err := req.SetQueryParam(string(q.Name), mon.SQ(q.Values)...); err != nil {
					return err
				}
			}
		}
		return nil
	}
	writer := runtime.ClientRequestWriterFunc(func(req runtime.ClientRequest, _ strfmt.Registry) error { return calls(req, false) })
	op := &runtime.ClientOperation{
		ID:          c.opID(),
		Method:      c.Method,
		PathPattern: string(c.Pattern),
		Schemes:     append([]string(nil), c.OSchemes...),
		Params:      writer,
	}
	rt.DefaultAuthentication = nil
	if len(c.AuthCalls) > 0 {
		auth := runtime.ClientAuthInfoWriterFunc(func(req runtime.ClientRequest, _ strfmt.Registry) error { return calls(req, true) })
		if c.AuthDefault {
			rt.DefaultAuthentication = auth
		} else {
			op.AuthInfo = auth
		}
	}
	return op
}

// buildOn builds the case once on the given Runtime, making the calls in the given order.
func buildOn(rt *client.Runtime, c *Case, order []int) built {
	var b built
	op := operation(rt, c, order)
	var req *http.Request
	var err error
	pv, st := mon.Catch(func() { req, err = rt.CreateHttpRequest(op) })
	if pv != nil {
		b.panicked = fmt.Sprintf("%v\n%s", pv, st)
		return b
	}
	if err != nil {
		b.err = err.Error()
		return b
	}
	return observe(req)
}

// submitOn sends the case once on the given Runtime (whose transport is rec), through the entry point c.Submit
// names, and gives the URL of the request the transport was handed.
func submitOn(rt *client.Runtime, rec *recorder, c *Case, order []int) built {
	op := operation(rt, c, order)
	op.Reader = runtime.ClientResponseReaderFunc(func(runtime.ClientResponse, runtime.Consumer) (interface{}, error) { return nil, nil })
	var tr runtime.ClientTransport = rt
	switch c.Submit {
	case "opentracing":
		tr, op.Context = rt.WithOpenTracing(), context.Background()
	case "opentelemetry":
		tr, op.Context = rt.WithOpenTelemetry(), context.Background()
	}
	before := rec.calls
	var err error
	pv, st := mon.Catch(func() { _, err = tr.Submit(op) })
	b := built{via: c.Submit}
	switch {
	case pv != nil:
		b.panicked = fmt.Sprintf("%v\n%s", pv, st)
	case err != nil:
		b.err = "Submit: " + err.Error()
	case rec.calls != before+1:
		b.err = fmt.Sprintf("Submit reported success and the transport was handed %d requests", rec.calls-before)
	default:
		b = rec.got
		b.via = c.Submit
	}
	return b
}

func (b built) key() string {
	switch {
	case b.panicked != "":
		return "panic"
	case b.err != "":
		return "error: " + b.err
	}
	return b.urlString + " host=" + b.reqHost
}

func identity(n int) []int {
	o := make([]int, n)
	for i := range o {
		o[i] = i
	}
	return o
}

func runCase(m *mon.M, c *Case) {
	values := map[string]string{}
	for _, p := range c.Params {
		values[p.Name] = string(p.Value)
	}
	ref, ok := buildRef(c, values)
	if !ok {
		m.Class("not-judged/malformed-static-query")
		return
	}
	if ref.unsetName != "" {
		m.Class("not-judged/unset-placeholder")
		return
	}
	if pp, _ := splitTemplate(string(c.Pattern)); !strings.HasPrefix(pp, "/") && strings.Contains(strings.SplitN(pp, "/", 2)[0], ":") {
		// "{a:b}/x": a reference without leading slash whose first segment holds a colon is not a relative
		// reference (RFC 3986 4.2: it reads as scheme "{a"); the statement says nothing about such a pattern
		m.Class("not-judged/colon-in-first-segment-of-pattern-without-leading-slash")
		return
	}
	ncalls := len(c.Params) + len(c.Query)
	orders := c.Orders
	if len(orders) == 0 {
		orders = [][]int{identity(ncalls)}
	}
	rep := c.Repeat
	if rep <= 0 {
		rep = 1
	}
	feat := valueFeature(c, ref)

	// non-triviality
	escapes := false
	for _, seg := range ref.segs {
		for _, p := range seg {
			if p.name != "" && needsEscape(values[p.name]) {
				escapes = true
			}
		}
	}
	_, src := ref.expectedQuery(c)
	collide := collisions(c, ref)
	if escapes || len(collide) > 0 {
		m.NT(fingerprint(c))
	}
	if escapes {
		m.Class("nt/value-needs-escaping")
	}
	for _, k := range collide {
		m.Class("nt/query-collision/" + k)
	}
	_ = src

	judged := map[string][]int{}
	var firstKey string
	var firstOrder []int
	var shared *client.Runtime
	var sharedRec *recorder
	if c.Shared {
		shared, sharedRec = open(c)
		m.Class(fmt.Sprintf("shared-runtime/before=%d", len(c.Before)))
	}
	if c.Entry != "" {
		m.Class("entry/" + c.Entry)
	}
	if c.Reassign {
		m.Class(fmt.Sprintf("fields-reassigned-after-%d-other-operations/shared=%v", len(c.Before), c.Shared))
	}
	if len(c.AuthCalls) > 0 {
		m.Class(fmt.Sprintf("auth-writer-sets-params/default=%v", c.AuthDefault))
	}
	if hasOddName(ref) {
		m.Class("placeholder-name-needs-escaping")
	}
	if len(c.Before) > 0 {
		m.Class(fmt.Sprintf("operation-id/same-as-an-earlier-operation=%v/none=%v", sharesID(c), c.opID() == ""))
	}
	for _, ord := range orders {
		for k := 0; k < rep; k++ {
			m.Eval(1)
			var b built
			if shared != nil {
				b = buildOn(shared, c, ord)
			} else {
				b = buildOnce(c, ord)
			}
			key := b.key()
			if _, seen := judged[key]; seen {
				continue
			}
			judged[key] = ord
			if firstKey == "" {
				firstKey, firstOrder = key, ord
			} else {
				two := minimal(c, [][]int{firstOrder, ord})
				m.Violate("order-dependent/"+feat+reusedSuffix(c, ord, b),
					fmt.Sprintf("same case, two builds differ: order %v -> %s ; order %v -> %s", firstOrder, firstKey, ord, key), two)
			}
			judge(m, c, ref, values, b, ord, feat)
		}
	}
	if c.Submit != "" {
		// what is sent: the URL the transport is handed is the URL the client built
		ord := orders[0]
		m.Eval(1)
		var b built
		if shared != nil {
			b = submitOn(shared, sharedRec, c, ord)
		} else {
			rt, rec := open(c)
			b = submitOn(rt, rec, c, ord)
		}
		m.Class("submitted/" + c.Submit)
		key := b.key()
		if _, seen := judged[key]; !seen {
			one := minimal(c, [][]int{ord})
			if b.err == "" && b.panicked == "" && !strings.HasPrefix(firstKey, "error: ") && firstKey != "panic" {
				m.Violate("sent-url-differs-from-built/"+feat+"/submit-"+c.Submit+reusedSuffix(c, ord, b),
					fmt.Sprintf("same case, same call order %v: CreateHttpRequest -> %s ; the transport of Submit was handed -> %s", ord, firstKey, key), one)
			}
			judge(m, c, ref, values, b, ord, feat)
		} else {
			m.Class("submitted/same-url-as-built")
		}
	}
	m.SetAdd("builds-per-case", fmt.Sprint(len(orders)*rep))
	if m.WantSample() {
		s := *c
		if len(s.Orders) > 2 {
			s.Orders = s.Orders[:2]
		}
		m.Sample(map[string]interface{}{"case": s, "url": firstKey})
	}
}

func minimal(c *Case, orders [][]int) *Case {
	one := *c
	one.Orders = orders
	one.Repeat = 8
	return &one
}

func fingerprint(c *Case) string {
	var sb strings.Builder
	sb.WriteString(string(c.BasePath))
	sb.WriteByte(0)
	sb.WriteString(string(c.Pattern))
	for _, p := range c.Params {
		sb.WriteByte(0)
		sb.WriteString(p.Name)
		sb.WriteByte(1)
		sb.WriteString(string(p.Value))
	}
	for _, q := range c.Query {
		sb.WriteByte(2)
		sb.WriteString(string(q.Name))
		for _, v := range q.Values {
			sb.WriteByte(1)
			sb.WriteString(string(v))
		}
	}
	return sb.String()
}

func collisions(c *Case, ref *refURL) []string {
	in := func(l []kvs, n string) bool {
		for _, g := range l {
			if g.name == n {
				return true
			}
		}
		return false
	}
	set := map[string]bool{}
	for _, q := range c.Query {
		if in(ref.patQ, string(q.Name)) {
			set["caller-pattern"] = true
		}
		if in(ref.baseQ, string(q.Name)) {
			set["caller-base"] = true
		}
	}
	for _, g := range ref.patQ {
		if in(ref.baseQ, g.name) {
			set["pattern-base"] = true
		}
	}
	var out []string
	for k := range set {
		out = append(out, k)
	}
	sort.Strings(out)
	return out
}

func judge(m *mon.M, c *Case, ref *refURL, values map[string]string, b built, ord []int, feat string) {
	one := minimal(c, [][]int{ord})
	// every violation below goes through viol, which qualifies the signature of a case built on a
	// reused Runtime when the same build on a Runtime of its own gives another result
	sfx, nameSfx, sfxDone := "", "", false
	viol := func(sig, detail string, cs interface{}) {
		if !sfxDone {
			sfx, sfxDone = reusedSuffix(c, ord, b), true
			if sfx == "" { // a failure of history is not laid on the names
				nameSfx = oddNameSuffix(c, ref, values, ord, b)
			}
		}
		sig += nameSfx
		if b.via != "" {
			sig += "/submit-" + b.via
			detail = "as handed to the transport by Submit (" + b.via + "): " + detail
		}
		m.Violate(sig+sfx, detail+beforeNote(c), cs)
	}
	if b.panicked != "" {
		viol("build-panic/"+feat, "CreateHttpRequest panicked: "+b.panicked, one)
		return
	}
	if b.err != "" {
		viol("build-error/"+culpritFeature(c, ref, values, ord), "CreateHttpRequest failed: "+b.err, one)
		m.Class("build-error")
		return
	}
	m.Class("built")

	// --- path shape ---
	want := ref.expectedSegments(values)
	got := strings.Split(b.escPath, "/")
	wantPath := "/" + strings.Join(want[1:], "/")
	describe := fmt.Sprintf("base %q pattern %q values %v -> escaped path %q, expected segments %q (%d), got %d", string(c.BasePath), string(c.Pattern), values, b.escPath, want, len(want)-1, len(got)-1)
	shapeOK := true
	switch {
	case b.escPath == "":
		shapeOK = false
		viol("segments-lost/"+culpritFeature(c, ref, values, ord), describe, one)
	case b.escPath[0] != '/':
		shapeOK = false
		viol("path-not-rooted/"+culpritFeature(c, ref, values, ord), describe, one)
	case len(got) != len(want):
		shapeOK = false
		// classify: only the trailing slash differs?
		switch {
		case len(got) == len(want)-1 && want[len(want)-1] == "" && ref.trailing && sameDecoded(got, want[:len(want)-1]):
			sig := "trailing-slash-lost"
			if len(want) >= 2 && want[len(want)-2] == "" {
				sig += "/empty-last-segment"
			}
			viol(sig, describe, one)
		case len(got) == len(want)+1 && got[len(got)-1] == "" && sameDecoded(got[:len(got)-1], want):
			viol("trailing-slash-added", describe, one)
		case len(got) > len(want):
			viol("segments-added/"+culpritFeature(c, ref, values, ord), describe, one)
		default:
			viol("segments-lost/"+culpritFeature(c, ref, values, ord), describe, one)
		}
	}
	if shapeOK {
		for i := range want {
			dec, ok := pctDecode(got[i], false)
			if !ok {
				viol("invalid-escape-in-path/"+feat, fmt.Sprintf("segment %d %q is not a valid percent-encoding; %s", i, got[i], describe), one)
				continue
			}
			if dec != want[i] {
				sf := feat
				if i > 0 && i-1 < len(ref.segs) {
					sf = segFeature(ref.segs[i-1], values)
				}
				sig := "segment-value-differs/" + sf
				if i > 0 && i-1 < len(ref.segs) && resubstituted(ref.segs[i-1], values, dec) {
					sig = "value-resubstituted/placeholder-like-value"
				}
				viol(sig, fmt.Sprintf("segment %d decodes to %q, expected %q; %s", i, dec, want[i], describe), one)
			}
			if strings.ContainsAny(got[i], "?#") {
				viol("raw-reserved-in-segment/"+feat, fmt.Sprintf("segment %d %q carries a raw '?' or '#'; %s", i, got[i], describe), one)
			}
		}
	}
	if b.fragment != "" {
		ff := feat
		for n := range usedNames(ref) {
			if strings.Contains(values[n], "#") {
				ff = "hash-in-value"
			}
		}
		viol("fragment-introduced/"+ff, fmt.Sprintf("URL has fragment %q; %s", b.fragment, describe), one)
	}
	_ = wantPath

	// --- the URL as a string says the same thing ---
	if u2, err := url.Parse(b.urlString); err != nil {
		viol("url-string-unparsable/"+feat, fmt.Sprintf("URL.String() %q does not parse: %v", b.urlString, err), one)
	} else if u2.EscapedPath() != b.escPath || u2.RawQuery != b.rawQuery || u2.Fragment != "" || u2.Host != b.host || u2.Scheme != b.scheme {
		viol("url-string-differs/"+feat, fmt.Sprintf("URL.String() %q re-parses to path %q query %q fragment %q host %q, the request URL says path %q query %q host %q", b.urlString, u2.EscapedPath(), u2.RawQuery, u2.Fragment, u2.Host, b.escPath, b.rawQuery, b.host), one)
	}

	// --- host ---
	if b.host != c.Host || b.reqHost != c.Host {
		viol("host-differs", fmt.Sprintf("URL.Host %q Request.Host %q, expected %q", b.host, b.reqHost, c.Host), one)
	}

	// --- query precedence ---
	expQ, src := ref.expectedQuery(c)
	gotGroups, ok := parseQuery(b.rawQuery)
	if !ok {
		viol("query-malformed", fmt.Sprintf("RawQuery %q is not well-formed", b.rawQuery), one)
	} else {
		gotQ := map[string][]string{}
		for _, g := range gotGroups {
			gotQ[g.name] = g.values
		}
		coll := map[string]bool{}
		for _, k := range collisions(c, ref) {
			coll[k] = true
		}
		for name, wantVals := range expQ {
			gv, present := gotQ[name]
			if present && equalStrings(gv, wantVals) {
				continue
			}
			sig := "query-param-lost/" + src[name] + "-level"
			if present {
				sig = "query-value-differs/" + src[name] + "-level"
			}
			// was a lower-precedence level preferred?
			if lvl := whichLevel(c, ref, name, gv); lvl != "" && lvl != src[name] {
				sig = "query-precedence/" + lvl + "-beats-" + src[name]
			}
			viol(sig, fmt.Sprintf("query name %q: got %q (present=%v), expected %q from the %s level; base %q pattern %q caller %v raw %q", name, gv, present, wantVals, src[name], string(c.BasePath), string(c.Pattern), c.Query, b.rawQuery), one)
		}
		for name, gv := range gotQ {
			if _, ok := expQ[name]; !ok {
				viol("query-param-invented", fmt.Sprintf("query name %q=%q was set by nobody; raw %q", name, gv, b.rawQuery), one)
			}
		}
	}

	// --- scheme ---
	wantScheme, among := expectedScheme(c)
	switch {
	case among == nil:
		m.Class("scheme/none-offered(not judged):" + b.scheme)
	case wantScheme != "":
		m.Class("scheme/https-among-several")
		if b.scheme != wantScheme {
			lvl := "transport"
			if len(c.TSchemes) == 0 {
				lvl = "operation"
			}
			viol("https-not-chosen/"+lvl+"-level", fmt.Sprintf("transport schemes %v, operation schemes %v: chosen %q", c.TSchemes, c.OSchemes, b.scheme), one)
		}
	default:
		m.Class("scheme/no-https-or-single")
		found := false
		for _, s := range among {
			if s == b.scheme {
				found = true
			}
		}
		if !found {
			sig := "scheme-not-offered"
			if len(c.TSchemes) > 0 {
				for _, s := range c.OSchemes {
					if s == b.scheme {
						sig = "scheme-operation-over-transport"
					}
				}
			}
			viol(sig, fmt.Sprintf("transport schemes %v, operation schemes %v: chosen %q", c.TSchemes, c.OSchemes, b.scheme), one)
		}
	}
}

// reusedSuffix qualifies a signature raised for a build made on a reused Runtime (after other
// operations or other builds): when the same calls on a Runtime of its own, with nothing built
// before, give another result, the failure is one of history, not of the inputs.
func reusedSuffix(c *Case, ord []int, b built) string {
	if !c.Shared && len(c.Before) == 0 && !c.Reassign {
		return ""
	}
	fresh := *c
	fresh.Shared, fresh.Before, fresh.Reassign = false, nil, false
	if rebuild(&fresh, ord, b).key() == b.key() {
		return ""
	}
	// history matters; is it the history of this operation ID? The same operations built first, the case's
	// own operation under an ID of its own
	if sharesID(c) {
		apart := *c
		apart.Shared = false
		apart.OpID, apart.NoOpID = unusedID(c), false
		if rebuild(&apart, ord, b).key() != b.key() {
			return "/only-after-another-operation-with-the-same-id"
		}
	}
	return "/only-on-reused-runtime"
}

// sharesID: was an operation with the ID of the case's operation (the empty one included) built before it?
func sharesID(c *Case) bool {
	for i := range c.Before {
		if c.Before[i].opID() == c.opID() {
			return true
		}
	}
	return false
}

func unusedID(c *Case) string {
	id := "op-of-its-own"
	for again := true; again; {
		again = false
		for i := range c.Before {
			if c.Before[i].opID() == id {
				id, again = id+"-", true
			}
		}
	}
	return id
}

// hasOddName: does a placeholder the templates use have a name with a byte outside the unreserved set?
func hasOddName(ref *refURL) bool {
	for n := range usedNames(ref) {
		if needsEscape(n) {
			return true
		}
	}
	return false
}

// pathRight: the build succeeded and its escaped path decodes, segment by segment, to the expected texts.
func pathRight(b built, want []string) bool {
	return b.err == "" && b.panicked == "" && sameDecoded(strings.Split(b.escPath, "/"), want)
}

// oddNameSuffix qualifies a signature raised for a case with such a placeholder name: the URL is the same when
// the placeholders are consistently called something else (names do not enter it), so when the path is wrong
// and the same build of the renamed case gives the right path, the failure is one of the names.
func oddNameSuffix(c *Case, ref *refURL, values map[string]string, ord []int, b built) string {
	if !hasOddName(ref) {
		return ""
	}
	want := ref.expectedSegments(values)
	if pathRight(b, want) {
		return ""
	}
	rc := *c
	rc.Shared = false
	rc.Params = append([]KV(nil), c.Params...)
	taken := map[string]bool{}
	for _, p := range c.Params {
		taken[p.Name] = true
	}
	k := 0
	for i, p := range rc.Params {
		if !needsEscape(p.Name) {
			continue
		}
		plain := fmt.Sprintf("zq%d", k)
		for k++; taken[plain]; k++ {
			plain = fmt.Sprintf("zq%d", k)
		}
		taken[plain] = true
		rc.Params[i].Name = plain
		rc.BasePath = mon.Q(strings.ReplaceAll(string(rc.BasePath), "{"+p.Name+"}", "{"+plain+"}"))
		rc.Pattern = mon.Q(strings.ReplaceAll(string(rc.Pattern), "{"+p.Name+"}", "{"+plain+"}"))
	}
	if pathRight(rebuild(&rc, ord, b), want) {
		return "/placeholder-name-needs-escaping"
	}
	return ""
}

func beforeNote(c *Case) string {
	if !c.Shared && len(c.Before) == 0 && !c.Reassign {
		return ""
	}
	re := ""
	if c.Reassign {
		re = fmt.Sprintf(" built while Runtime.BasePath was %q and Runtime.Host %q", string(c.BeforeBasePath), c.BeforeHost)
	}
	return fmt.Sprintf(" ; built on a Runtime (entry %q, shared=%v) after %d other operation(s)%s", c.Entry, c.Shared, len(c.Before), re)
}

func sameDecoded(got, want []string) bool {
	if len(got) != len(want) {
		return false
	}
	for i := range got {
		d, ok := pctDecode(got[i], false)
		if !ok || d != want[i] {
			return false
		}
	}
	return true
}

// resubstituted: does the observed text equal the template with some value that looks like a
// placeholder replaced a second time?
func resubstituted(seg []part, values map[string]string, observed string) bool {
	for _, p := range seg {
		if p.name == "" {
			continue
		}
		v := values[p.name]
		for n, v2 := range values {
			if strings.Contains(v, "{"+n+"}") {
				re := strings.ReplaceAll(v, "{"+n+"}", v2)
				if re != v && strings.Contains(observed, re) {
					return true
				}
			}
		}
	}
	return false
}

func whichLevel(c *Case, ref *refURL, name string, got []string) string {
	if got == nil {
		return ""
	}
	for _, q := range c.Query {
		if string(q.Name) == name && equalStrings(mon.SQ(q.Values), got) {
			return "caller"
		}
	}
	for _, g := range ref.patQ {
		if g.name == name && equalStrings(g.values, got) {
			return "pattern"
		}
	}
	for _, g := range ref.baseQ {
		if g.name == name && equalStrings(g.values, got) {
			return "base"
		}
	}
	return ""
}

func equalStrings(a, b []string) bool {
	if len(a) != len(b) {
		return false
	}
	for i := range a {
		if a[i] != b[i] {
			return false
		}
	}
	return true
}

// ---------------------------------------------------------------------------------------------
// generation

var (
	staticWords = []string{"a", "users", "v1", "items", "x.y", "a-b", "~z", "api", "b"}
	paramNames  = []string{"a", "b", "id", "ab", "user-id", "x_y", "a.b", "tenant", "a-b", "axb"}
	// names that are siblings of one another if a placeholder is ever read as a pattern ('.' matching any byte)
	siblingNames = []string{"a.b", "a-b", "axb", "a", "b"}
	// placeholder names outside the unreserved set: whatever stands between the braces is the name. Not in a
	// name: '/' '?' '#' (they end a segment or the path), '%' '{' '}' (no syntax is defined for them), control bytes
	oddNames = []string{
		"user id", "stra\u00dfe", "x^y", "a|b", "\u540d\u524d", "\u00e9", "a\"b", "<t>", "a\\b", "a`b", " ", "a b c", " id", "id ",
		"a:b", "a@b", "a,b", "a;v", "k=v", "a&b", "a+b", "$a", "a!", "a*", "(a)", "a'b", "[0]", "a.b c", "\u03a9-id",
	}
	operationIDs = []string{"getThing", "op", "before", "listItems", "get thing/\u00fc", "a"}
	queryNames   = []string{"x", "y", "q", "id", "a b", "k=", "\xc3\xa9"}
	hostileVals  = []string{
		"", "", ".", "..", "...", "/", "a/b", "../x", "/etc/passwd", "%2F", "%2f..", "%", "%zz", "%25", "?", "?x=1", "a?b=c", "#", "#frag", "a#b",
		"{b}", "{a}", "{id}", "{", "}", "{}", "a b", " ", "+", "a+b", "\xc3\xa9", "\xff", "\x00", "\n", ";", ",", ":", "@", "&", "=", "//", "http://x/y",
		"..%2F", "a;v=1", "x&y=1", "100%", "~", "-._~", "users", "v", "0",
		"$", "$0", "$1", "${a}", "${1}", "$$", "a$b", "$a", "$&", "\\1", "$id",
	}
	hosts       = []string{"localhost", "localhost:8080", "example.com", "127.0.0.1:1", "[::1]:8443"}
	methods     = []string{"GET", "POST", "PUT", "DELETE", "PATCH", "HEAD", "OPTIONS"}
	schemeWords = []string{"http", "https", "ws", "wss"}
)

const unreserved = "ABCDEFGHIJKLMNOPQRSTUVWXYZabcdefghijklmnopqrstuvwxyz0123456789-_.~"

// encQ percent-encodes a query component the hostile way: everything outside the unreserved set
// is encoded (upper or lower hex), space sometimes as '+', unreserved bytes sometimes encoded too.
func encQ(r *rand.Rand, s string) string {
	var sb strings.Builder
	for i := 0; i < len(s); i++ {
		b := s[i]
		switch {
		case b == ' ' && r.Intn(2) == 0:
			sb.WriteByte('+')
		case strings.IndexByte(unreserved, b) >= 0 && r.Intn(12) != 0:
			sb.WriteByte(b)
		default:
			if r.Intn(2) == 0 {
				fmt.Fprintf(&sb, "%%%02X", b)
			} else {
				fmt.Fprintf(&sb, "%%%02x", b)
			}
		}
	}
	return sb.String()
}

// rawInQuery are bytes outside the unreserved set that RFC 3986 allows as they are in a query
// component and that neither separate pairs nor names from values.
const rawInQuery = "/:@,"

// encQRaw is encQ, except that the bytes of rawInQuery stay as they are: the way a person writes
// callback=https://host/cb or dir=/srv/data/ into a base path or a pattern.
func encQRaw(r *rand.Rand, s string) string {
	var sb strings.Builder
	for i := 0; i < len(s); i++ {
		if strings.IndexByte(rawInQuery, s[i]) >= 0 {
			sb.WriteByte(s[i])
		} else {
			sb.WriteString(encQ(r, s[i:i+1]))
		}
	}
	return sb.String()
}

// pathLikeVals are query values (and names) that look like paths or URLs: text that a path
// normalisation applied to the wrong string would rewrite.
var pathLikeVals = []string{
	"https://hooks.example.com/cb", "http://x//y/", "/srv/data/", "/srv/data", "refs/heads/../tags/v2", "src/./gen", "./x", "../", "..", ".",
	"//", "a//b", "/", "x/", "/.", "/..", "a/./b/", "a/b/../../..", "/a/b/c/d", "urn:x:y", "user@host:/path/", "a,b,/c/",
}

// longValue makes a value of exactly n bytes with reserved bytes at both ends and at the 64-byte
// boundaries: lengths around the sizes of fixed buffers and short-string fast paths.
func longValue(r *rand.Rand, n int) string {
	const filler = "abcdefghijklmnopqrstuvwxyz0123456789-_.~"
	edge := []byte{'/', '?', '#', '%', ' ', '{', '}', '$', 0xff, '+', '&', '='}
	b := make([]byte, n)
	for i := range b {
		b[i] = filler[(i+n)%len(filler)]
	}
	put := func(i int) {
		if i >= 0 && i < n {
			b[i] = edge[r.Intn(len(edge))]
		}
	}
	put(0)
	put(n - 1)
	for k := 63; k < n; k += 64 {
		if r.Intn(2) == 0 {
			put(k)
		}
		if r.Intn(2) == 0 {
			put(k + 1)
		}
	}
	if r.Intn(3) == 0 { // nothing to escape at all: only the length matters
		for i := range b {
			b[i] = filler[(i+n)%len(filler)]
		}
	}
	return string(b)
}

var longLens = []int{63, 64, 65, 127, 128, 129, 255, 256, 257, 1023, 1025, 4096}

func genValue(r *rand.Rand, names []string) string {
	if r.Intn(100) == 0 {
		return longValue(r, longLens[r.Intn(len(longLens))])
	}
	switch k := r.Intn(10); {
	case k < 5:
		return hostileVals[r.Intn(len(hostileVals))]
	case k < 6 && len(names) > 0:
		return "{" + names[r.Intn(len(names))] + "}"
	case k < 7:
		return gen.Pick(r, staticWords)
	default:
		v := gen.Value(r, 8, true)
		if r.Intn(6) == 0 { // gen.HostileBytes has no '$'
			at := r.Intn(len(v) + 1)
			v = v[:at] + "$" + v[at:]
		}
		return v
	}
}

func genStaticQuery(r *rand.Rand) string {
	n := 1 + r.Intn(3)
	var pairs []string
	// a third of the static queries are written the way people write them: '/' ':' '@' ',' as they are
	enc := encQ
	if r.Intn(3) == 0 {
		enc = encQRaw
	}
	for i := 0; i < n; i++ {
		name := queryNames[r.Intn(len(queryNames))]
		val := genValue(r, nil)
		if r.Intn(4) == 0 {
			val = pathLikeVals[r.Intn(len(pathLikeVals))]
			if r.Intn(12) == 0 {
				name = pathLikeVals[r.Intn(len(pathLikeVals))]
			}
		}
		if r.Intn(8) == 0 {
			pairs = append(pairs, enc(r, name)) // bare name, empty value
			continue
		}
		pairs = append(pairs, enc(r, name)+"="+enc(r, val))
	}
	return strings.Join(pairs, "&")
}

// oddNameRunes: what a generated odd name is made of (see oddNames).
var oddNameRunes = []rune(" ^|\"<>\\`:@,;=&+$!*'()[]ab1.-_~\u00df\u00e9\u00f1\u540d\u03a9")

func genOddName(r *rand.Rand) string {
	if r.Intn(3) != 0 {
		return oddNames[r.Intn(len(oddNames))]
	}
	n := 1 + r.Intn(4)
	rs := make([]rune, n)
	for i := range rs {
		rs[i] = oddNameRunes[r.Intn(len(oddNameRunes))]
	}
	return string(rs)
}

func genSegments(r *rand.Rand, n int, names *[]string) []string {
	var segs []string
	pool := paramNames
	if r.Intn(8) == 0 {
		pool = siblingNames
	}
	pick := func() string {
		nm := pool[r.Intn(len(pool))]
		if r.Intn(10) == 0 {
			nm = genOddName(r)
		}
		*names = append(*names, nm)
		return "{" + nm + "}"
	}
	for i := 0; i < n; i++ {
		if r.Intn(150) == 0 { // a long static word, alone or in front of a placeholder
			w := strings.Repeat("static-Word_0.9~", 300)[:longLens[r.Intn(len(longLens))]]
			if r.Intn(2) == 0 {
				w += pick()
			}
			segs = append(segs, w)
			continue
		}
		switch k := r.Intn(20); {
		case k < 8:
			segs = append(segs, gen.Pick(r, staticWords))
		case k < 15:
			segs = append(segs, pick())
		case k < 16:
			segs = append(segs, gen.Pick(r, staticWords)+pick())
		case k < 17:
			segs = append(segs, pick()+gen.Pick(r, staticWords))
		case k < 18:
			segs = append(segs, pick()+"."+pick())
		case k < 19:
			segs = append(segs, pick()+pick())
		default:
			segs = append(segs, gen.Pick(r, staticWords)+"-"+pick()+"-"+gen.Pick(r, staticWords))
		}
	}
	return segs
}

func genSchemes(r *rand.Rand) []string {
	switch k := r.Intn(12); {
	case k < 3:
		return nil
	case k < 4:
		return []string{"http"}
	case k < 5:
		return []string{"https"}
	case k < 6:
		return []string{"http", "https"}
	case k < 7:
		return []string{"https", "http"}
	case k < 8:
		return []string{"ws", "http", "https"}
	default:
		n := 1 + r.Intn(3)
		var l []string
		for i := 0; i < n; i++ {
			l = append(l, schemeWords[r.Intn(len(schemeWords))])
		}
		return l
	}
}

func genCase(r *rand.Rand, norders int) *Case {
	c := &Case{Host: hosts[r.Intn(len(hosts))], Method: methods[r.Intn(len(methods))]}
	var names []string

	// base path
	var base string
	switch k := r.Intn(12); {
	case k < 1:
		base = ""
	case k < 3:
		base = "/"
	default:
		segs := genSegmentsBase(r, &names)
		base = strings.Join(segs, "/")
		if r.Intn(4) != 0 {
			base = "/" + base
		}
		if r.Intn(3) == 0 {
			base += "/"
		}
	}
	if r.Intn(4) == 0 {
		base += "?" + genStaticQuery(r)
	}
	c.BasePath = mon.Q(base)

	// pattern
	nseg := r.Intn(6)
	segs := genSegments(r, nseg, &names)
	pat := strings.Join(segs, "/")
	if r.Intn(8) != 0 {
		pat = "/" + pat
	}
	if nseg > 0 && r.Intn(3) == 0 {
		pat += "/"
	}
	if r.Intn(3) == 0 {
		pat += "?" + genStaticQuery(r)
	}
	c.Pattern = mon.Q(pat)

	// values
	seen := map[string]bool{}
	var uniq []string
	for _, n := range names {
		if !seen[n] {
			seen[n] = true
			uniq = append(uniq, n)
		}
	}
	for _, n := range uniq {
		c.Params = append(c.Params, KV{Name: n, Value: mon.Q(genValue(r, uniq))})
	}
	if r.Intn(6) == 0 { // a value nobody asked for
		for _, n := range paramNames {
			if !seen[n] {
				c.Params = append(c.Params, KV{Name: n, Value: mon.Q(genValue(r, uniq))})
				break
			}
		}
	}

	// caller query
	if r.Intn(2) == 0 {
		nq := 1 + r.Intn(3)
		qseen := map[string]bool{}
		for i := 0; i < nq; i++ {
			n := queryNames[r.Intn(len(queryNames))]
			if r.Intn(10) == 0 {
				n = gen.Value(r, 4, true)
			}
			if qseen[n] {
				continue
			}
			qseen[n] = true
			nv := 1
			if r.Intn(5) == 0 {
				nv = 2 + r.Intn(2)
			}
			q := QP{Name: mon.Q(n)}
			for j := 0; j < nv; j++ {
				q.Values = append(q.Values, mon.Q(genValue(r, nil)))
			}
			c.Query = append(c.Query, q)
		}
	}

	c.TSchemes = genSchemes(r)
	c.OSchemes = genSchemes(r)

	ncalls := len(c.Params) + len(c.Query)
	c.Orders = append(c.Orders, identity(ncalls))
	rev := identity(ncalls)
	for i, j := 0, len(rev)-1; i < j; i, j = i+1, j-1 {
		rev[i], rev[j] = rev[j], rev[i]
	}
	c.Orders = append(c.Orders, rev)
	for len(c.Orders) < norders {
		c.Orders = append(c.Orders, r.Perm(ncalls))
	}

	// entry point, reuse of the Runtime, calls made by the authentication writer
	switch r.Intn(10) {
	case 0:
		c.Entry = "with-client"
	case 1, 2:
		c.Entry = "field"
	}
	if r.Intn(3) == 0 {
		c.Shared = true
		if r.Intn(3) == 0 {
			c.TSchemes = nil // the operations alone decide, one after the other
		}
		for i, n := 0, r.Intn(4); i < n; i++ {
			c.Before = append(c.Before, genOp(r))
		}
	}
	if (c.Shared && r.Intn(3) == 0) || (!c.Shared && r.Intn(20) == 0) {
		// the other operations are built under another base path and host, assigned to the exported fields
		c.Reassign = true
		c.BeforeHost = hosts[r.Intn(len(hosts))]
		if r.Intn(4) == 0 {
			c.BeforeHost = "other.example:81"
		}
		var bn []string
		bb := strings.Join(genSegmentsBase(r, &bn), "/")
		switch r.Intn(4) {
		case 0:
		case 1:
			bb = "/" + bb + "/"
		default:
			bb = "/" + bb
		}
		if r.Intn(3) == 0 {
			bb += "?" + genStaticQuery(r)
		}
		c.BeforeBasePath = mon.Q(bb)
		for len(c.Before) < 1+r.Intn(2) {
			o := genOp(r)
			for _, n := range bn { // values for the placeholders of that base path
				o.Params = append(o.Params, KV{Name: n, Value: mon.Q(genValue(r, bn))})
			}
			c.Before = append(c.Before, o)
		}
	}
	// operation IDs: a free label. Some operations have none, and operations built before on the same Runtime
	// may carry the ID of the case's operation (two versions of a route, clients of two descriptions)
	switch r.Intn(8) {
	case 0:
		c.NoOpID = true
	case 1, 2:
		c.OpID = operationIDs[r.Intn(len(operationIDs))]
	}
	for i := range c.Before {
		o := &c.Before[i]
		switch r.Intn(6) {
		case 0, 1:
			o.ID, o.NoID = c.opID(), c.NoOpID
			if r.Intn(4) == 0 {
				// the case's own operation, built before with other values (and, with Reassign, under another configuration)
				o.Pattern = c.Pattern
				for _, p := range c.Params {
					o.Params = append(o.Params, KV{Name: p.Name, Value: mon.Q(genValue(r, uniq))})
				}
			}
		case 2:
			o.ID = operationIDs[r.Intn(len(operationIDs))]
		case 3:
			o.NoID = r.Intn(2) == 0
		}
		if r.Intn(5) == 0 {
			o.Via = "submit"
		}
	}
	if ncalls > 0 && r.Intn(4) == 0 {
		// one path value and/or one query entry go through the authentication writer
		if len(c.Params) > 0 && r.Intn(3) != 0 {
			c.AuthCalls = append(c.AuthCalls, r.Intn(len(c.Params)))
		}
		if len(c.Query) > 0 && (len(c.AuthCalls) == 0 || r.Intn(2) == 0) {
			c.AuthCalls = append(c.AuthCalls, len(c.Params)+r.Intn(len(c.Query)))
		}
		c.AuthDefault = len(c.AuthCalls) > 0 && r.Intn(3) == 0
	}
	if r.Intn(20) == 0 {
		c.Submit = []string{"runtime", "runtime", "opentracing", "opentelemetry"}[r.Intn(4)]
	}
	return c
}

// genOp makes another operation for a shared Runtime: its own pattern (with static query), values,
// caller query and scheme list.
func genOp(r *rand.Rand) Op {
	var names []string
	o := Op{Method: methods[r.Intn(len(methods))]}
	segs := genSegments(r, r.Intn(4), &names)
	pat := "/" + strings.Join(segs, "/")
	if len(segs) > 0 && r.Intn(3) == 0 {
		pat += "/"
	}
	if r.Intn(2) == 0 {
		pat += "?" + genStaticQuery(r)
	}
	o.Pattern = mon.Q(pat)
	seen := map[string]bool{}
	for _, n := range names {
		if !seen[n] {
			seen[n] = true
			o.Params = append(o.Params, KV{Name: n, Value: mon.Q(genValue(r, names))})
		}
	}
	if r.Intn(2) == 0 {
		o.Query = append(o.Query, QP{Name: mon.Q(queryNames[r.Intn(len(queryNames))]), Values: []mon.Q{mon.Q(genValue(r, nil))}})
	}
	o.OSchemes = genSchemes(r)
	return o
}

func genSegmentsBase(r *rand.Rand, names *[]string) []string {
	n := 1 + r.Intn(3)
	var segs []string
	for i := 0; i < n; i++ {
		if r.Intn(7) == 0 {
			nm := paramNames[r.Intn(len(paramNames))]
			if r.Intn(6) == 0 {
				nm = genOddName(r)
			}
			*names = append(*names, nm)
			segs = append(segs, "{"+nm+"}")
		} else {
			segs = append(segs, gen.Pick(r, staticWords))
		}
	}
	return segs
}

func run(m *mon.M) {
	r := m.Rand("cases")
	n := m.N(25000, 400000)
	norders := m.N(6, 8)
	for i := 0; i < n; i++ {
		c := genCase(r, norders)
		m.Begin(c)
		runCase(m, c)
	}
}

func replay(m *mon.M, raw json.RawMessage) {
	var c Case
	if err := json.Unmarshal(raw, &c); err != nil {
		m.Violate("bad-replay-case", err.Error(), nil)
		return
	}
	runCase(m, &c)
}
