//go:build pC15 || pall

package main

import _ "verif/props/c15"
