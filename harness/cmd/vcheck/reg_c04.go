//go:build pC04 || pall

package main

import _ "verif/props/c04"
