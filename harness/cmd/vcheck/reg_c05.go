//go:build pC05 || pall

package main

import _ "verif/props/c05"
