//go:build pC14 || pall

package main

import _ "verif/props/c14"
