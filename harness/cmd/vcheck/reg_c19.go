//go:build pC19 || pall

package main

import _ "verif/props/c19"
