//go:build pC08 || pall

package main

import _ "verif/props/c08"
