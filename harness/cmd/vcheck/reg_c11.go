//go:build pC11 || pall

package main

import _ "verif/props/c11"
