//go:build pC01 || pall

package main

import _ "verif/props/c01"
