//go:build pC02 || pall

package main

import _ "verif/props/c02"
