//go:build pC12 || pall

package main

import _ "verif/props/c12"
