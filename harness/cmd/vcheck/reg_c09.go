//go:build pC09 || pall

package main

import _ "verif/props/c09"
