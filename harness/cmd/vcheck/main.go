// Command vcheck is the driver (parent) and worker (child) of every property check.
// Which property packages are linked in is selected by build tags (pC01 … pC20, pall).
package main

import "verif/mon"

func main() { mon.Main() }
