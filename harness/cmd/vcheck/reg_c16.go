//go:build pC16 || pall

package main

import _ "verif/props/c16"
