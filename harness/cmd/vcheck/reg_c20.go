//go:build pC20 || pall

package main

import _ "verif/props/c20"
