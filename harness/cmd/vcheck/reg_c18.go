//go:build pC18 || pall

package main

import _ "verif/props/c18"
