//go:build pC13 || pall

package main

import _ "verif/props/c13"
