//go:build pC07 || pall

package main

import _ "verif/props/c07"
