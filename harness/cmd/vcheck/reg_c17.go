//go:build pC17 || pall

package main

import _ "verif/props/c17"
