//go:build pC10 || pall

package main

import _ "verif/props/c10"
