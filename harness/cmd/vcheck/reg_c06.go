//go:build pC06 || pall

package main

import _ "verif/props/c06"
