//go:build pC03 || pall

package main

import _ "verif/props/c03"
