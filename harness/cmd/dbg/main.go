package main

import (
	"fmt"
	"github.com/go-openapi/spec"
	"github.com/go-openapi/strfmt"
	"github.com/go-openapi/validate"
)

func main() {
	p := spec.HeaderParam("X").Typed("string", "uuid")
	v := validate.NewParamValidator(p, strfmt.Default)
	for _, s := range []string{"6ba7b810-9dad-11d1-80b4-00c04fd430c8", "6BA7B810-9DAD-11D1-80B4-00C04FD430C8", ""} {
		r := v.Validate(strfmt.UUID(s))
		fmt.Println(s, r.AsError())
		r = v.Validate(s)
		fmt.Println(" as string:", r.AsError())
	}
}
