// Package mon is the monitor runtime shared by all property checks: seeded
// PRNG streams, counters, distinct-case sets, samples, violations with replay
// files, known-finding matching, evidence writing and the parent/worker split.
package mon

import (
	"encoding/json"
	"fmt"
	"hash/fnv"
	"math/rand"
	"os"
	"path/filepath"
	"runtime/debug"
	"sort"
	"sync"
	"time"
)

// Property describes one registered check.
type Property struct {
	ID          string
	Level       string // exploration | fault_enumeration
	Rule        string // how cases are generated and what makes one non-trivial/distinct
	Assumptions []string
	Race        bool // built with -race; race log reports are violations
	QuickShards int  // default 4
	ThorShards  int  // default 16
	// MinNontrivial is the vacuity floor for the merged run (inconclusive below it).
	MinNontrivial int
	// Run generates and executes this shard's cases.
	Run func(m *M)
	// Replay re-executes one recorded case (the "case" member of a replay file).
	Replay func(m *M, raw json.RawMessage)
	// Exhaustive reports whether the tier enumerates a finite space completely.
	Exhaustive func(tier string) bool
	// WorkerTimeout per tier (wall-clock watchdog; firing = inconclusive).
	QuickTimeout, ThorTimeout time.Duration
}

var registry = map[string]*Property{}

// Register adds a property check to the registry.
func Register(p *Property) { registry[p.ID] = p }

// Lookup finds a registered property.
func Lookup(id string) *Property { return registry[id] }

// Violation is one refuting observation.
type Violation struct {
	Sig    string          `json:"sig"`
	Detail string          `json:"detail"`
	Case   json.RawMessage `json:"case,omitempty"`
	Replay string          `json:"replay,omitempty"`
}

// M is the per-worker monitor state. All methods are safe for concurrent use.
type M struct {
	Prop    string
	Tier    string
	Seed    int64
	Shard   int
	NShards int
	OutDir  string // base for run/, replays/, evidence/

	mu         sync.Mutex
	evals      int64
	distinct   map[uint64]struct{}
	distinctN  int64 // number of NT calls (incl. duplicates)
	capped     bool
	classes    map[string]int64
	sets       map[string]map[string]struct{}
	samples    []json.RawMessage
	sampleSeen int64
	violations []Violation
	vioBySig   map[string]int
	notes      map[string]int64
	cur        *os.File
	replayMode bool
	srng       *rand.Rand
}

const distinctCap = 400000

// New creates a monitor state.
func New(prop, tier string, seed int64, shard, nshards int, outDir string) *M {
	m := &M{Prop: prop, Tier: tier, Seed: seed, Shard: shard, NShards: nshards, OutDir: outDir,
		distinct: map[uint64]struct{}{}, classes: map[string]int64{}, sets: map[string]map[string]struct{}{},
		vioBySig: map[string]int{}, notes: map[string]int64{}}
	m.srng = rand.New(rand.NewSource(seed*7919 + int64(shard)*104729 + 17))
	return m
}

// Quick reports whether this is the quick tier.
func (m *M) Quick() bool { return m.Tier != "thorough" }

// Rand returns a PRNG stream determined by (seed, shard, name).
func (m *M) Rand(name string) *rand.Rand {
	h := fnv.New64a()
	fmt.Fprintf(h, "%s|%d|%d|%s", m.Prop, m.Seed, m.Shard, name)
	return rand.New(rand.NewSource(int64(h.Sum64() & 0x7fffffffffffffff)))
}

// N picks the per-shard case count for the tier.
func (m *M) N(quick, thorough int) int {
	if m.Quick() {
		return quick
	}
	return thorough
}

// Eval counts n executed evaluations.
func (m *M) Eval(n int) {
	m.mu.Lock()
	m.evals += int64(n)
	m.mu.Unlock()
}

// Hash64 hashes a fingerprint string.
func Hash64(s string) uint64 {
	h := fnv.New64a()
	h.Write([]byte(s))
	return h.Sum64()
}

// NT records a distinct non-trivial case by fingerprint.
func (m *M) NT(fp string) {
	k := Hash64(fp)
	m.mu.Lock()
	m.distinctN++
	if _, ok := m.distinct[k]; !ok {
		if len(m.distinct) < distinctCap {
			m.distinct[k] = struct{}{}
		} else {
			m.capped = true
		}
	}
	m.mu.Unlock()
}

// Class increments a histogram bucket (reported under coverage.classes).
func (m *M) Class(k string) {
	m.mu.Lock()
	m.classes[k]++
	m.mu.Unlock()
}

// ClassN adds n to a histogram bucket.
func (m *M) ClassN(k string, n int) {
	m.mu.Lock()
	m.classes[k] += int64(n)
	m.mu.Unlock()
}

// SetAdd adds a member to a named small set (reported as its size and, when small, its members).
func (m *M) SetAdd(set, member string) {
	m.mu.Lock()
	s := m.sets[set]
	if s == nil {
		s = map[string]struct{}{}
		m.sets[set] = s
	}
	if len(s) < 5000 {
		s[member] = struct{}{}
	}
	m.mu.Unlock()
}

// Note adds to a free counter (reported under coverage.notes).
func (m *M) Note(k string, n int64) {
	m.mu.Lock()
	m.notes[k] += n
	m.mu.Unlock()
}

// Sample keeps a reservoir of up to 6 actual cases.
func (m *M) Sample(v interface{}) {
	m.mu.Lock()
	defer m.mu.Unlock()
	m.sampleSeen++
	const k = 6
	if len(m.samples) < k {
		b, err := json.Marshal(v)
		if err == nil {
			m.samples = append(m.samples, clip(b))
		}
		return
	}
	if j := m.srng.Int63n(m.sampleSeen); j < k {
		b, err := json.Marshal(v)
		if err == nil {
			m.samples[j] = clip(b)
		}
	}
}

// WantSample is a cheap pre-test so callers need not build sample values for every case.
func (m *M) WantSample() bool {
	m.mu.Lock()
	defer m.mu.Unlock()
	if len(m.samples) < 6 {
		return true
	}
	return m.srng.Intn(2000) == 0
}

func clip(b []byte) json.RawMessage {
	if len(b) > 2500 {
		s, _ := json.Marshal(string(b[:2400]) + "…(clipped)")
		return s
	}
	return b
}

// Begin marks the case about to be executed (written before the code under test is
// invoked, so that a process-fatal failure leaves its input on disk).
func (m *M) Begin(c interface{}) {
	if m.replayMode {
		return
	}
	b, err := json.Marshal(c)
	if err != nil {
		b = []byte(fmt.Sprintf("%q", fmt.Sprint(c)))
	}
	m.mu.Lock()
	defer m.mu.Unlock()
	if m.cur == nil {
		dir := filepath.Join(m.OutDir, "run", m.Prop)
		_ = os.MkdirAll(dir, 0o755)
		f, err := os.Create(filepath.Join(dir, fmt.Sprintf("shard-%d.cur", m.Shard)))
		if err != nil {
			return
		}
		m.cur = f
	}
	_ = m.cur.Truncate(0)
	_, _ = m.cur.WriteAt(b, 0)
}

// Violate records a violation. sig is a narrow classification of (input features, failure
// mode) used to match known findings; cas must be the JSON-serialisable replayable case.
func (m *M) Violate(sig, detail string, cas interface{}) {
	var raw json.RawMessage
	if cas != nil {
		if r, ok := cas.(json.RawMessage); ok {
			raw = r
		} else {
			b, err := json.Marshal(cas)
			if err == nil {
				raw = b
			}
		}
	}
	m.mu.Lock()
	defer m.mu.Unlock()
	m.vioBySig[sig]++
	if m.vioBySig[sig] > 5 || len(m.violations) > 200 { // keep a few witnesses per signature
		return
	}
	if len(detail) > 4000 {
		detail = detail[:4000] + "…"
	}
	m.violations = append(m.violations, Violation{Sig: sig, Detail: detail, Case: raw})
}

// Guard runs f and converts a panic into a violation with the given signature prefix.
// It returns true when f panicked.
func (m *M) Guard(sigOnPanic string, cas interface{}, f func()) (panicked bool) {
	defer func() {
		if r := recover(); r != nil {
			panicked = true
			m.Violate(sigOnPanic, fmt.Sprintf("panic: %v\n%s", r, trimStack(debug.Stack())), cas)
		}
	}()
	f()
	return false
}

// Catch runs f and returns the recovered panic value (nil when none) and a short stack.
func Catch(f func()) (pv interface{}, stack string) {
	defer func() {
		if r := recover(); r != nil {
			pv = r
			stack = trimStack(debug.Stack())
		}
	}()
	f()
	return nil, ""
}

func trimStack(b []byte) string {
	if len(b) > 3000 {
		b = b[:3000]
	}
	return string(b)
}

// Result is what a worker hands to the parent.
type Result struct {
	Prop       string             `json:"prop"`
	Shard      int                `json:"shard"`
	Evals      int64              `json:"evals"`
	Distinct   []uint64           `json:"distinct"`
	DistinctN  int64              `json:"distinct_calls"`
	Capped     bool               `json:"capped"`
	Classes    map[string]int64   `json:"classes"`
	Sets       map[string][]string `json:"sets"`
	Samples    []json.RawMessage  `json:"samples"`
	Violations []Violation        `json:"violations"`
	VioBySig   map[string]int     `json:"vio_by_sig"`
	Notes      map[string]int64   `json:"notes"`
	WallS      float64            `json:"wall_s"`
}

// Result snapshots the monitor state.
func (m *M) Result() *Result {
	m.mu.Lock()
	defer m.mu.Unlock()
	r := &Result{Prop: m.Prop, Shard: m.Shard, Evals: m.evals, DistinctN: m.distinctN, Capped: m.capped,
		Classes: m.classes, Samples: m.samples, Violations: m.violations, VioBySig: m.vioBySig, Notes: m.notes,
		Sets: map[string][]string{}}
	for k := range m.distinct {
		r.Distinct = append(r.Distinct, k)
	}
	for k, s := range m.sets {
		var l []string
		for e := range s {
			l = append(l, e)
		}
		sort.Strings(l)
		r.Sets[k] = l
	}
	return r
}

// SetReplayMode disables the current-case marker.
func (m *M) SetReplayMode() { m.replayMode = true }
