package mon

import (
	"bufio"
	"bytes"
	"encoding/json"
	"errors"
	"flag"
	"fmt"
	"os"
	"os/exec"
	"path/filepath"
	"regexp"
	"sort"
	"strconv"
	"strings"
	"sync"
	"syscall"
	"time"
)

// KnownFindings is the committed known-findings file (never written at run time).
type KnownFindings struct {
	Findings []KnownFinding `json:"findings"`
	Fixed    []string       `json:"fixed"`
	// FixedWitnesses are the pinned witnesses of repaired defects. They suppress nothing: every run
	// re-executes them as ordinary cases, so a defect that returns is reported as a violation.
	FixedWitnesses []KnownFinding `json:"fixed_witnesses"`
}

// KnownFinding identifies one recorded genuine defect by a narrow signature and a pinned witness.
type KnownFinding struct {
	Property string          `json:"property"`
	Sig      string          `json:"sig"`
	What     string          `json:"what"`
	Witness  json.RawMessage `json:"witness"`
}

type replayFile struct {
	Property string          `json:"property"`
	Sig      string          `json:"sig"`
	Detail   string          `json:"detail"`
	Seed     int64           `json:"seed"`
	Tier     string          `json:"tier"`
	Shard    int             `json:"shard"`
	Case     json.RawMessage `json:"case"`
}

func envInt(name string, def int64) int64 {
	if v := os.Getenv(name); v != "" {
		if n, err := strconv.ParseInt(v, 10, 64); err == nil {
			return n
		}
	}
	return def
}

func homeDir() string {
	if h := os.Getenv("VERIF_HOME"); h != "" {
		return h
	}
	return "/verif"
}

func outDir() string {
	if h := os.Getenv("VERIF_OUT"); h != "" {
		return h
	}
	return homeDir()
}

// Main is the entry point of every vcheck binary.
func Main() {
	var (
		prop    = flag.String("prop", "", "property id")
		worker  = flag.Bool("worker", false, "run as worker")
		shard   = flag.Int("shard", 0, "shard index")
		nshards = flag.Int("nshards", 1, "shard count")
		out     = flag.String("out", "", "worker result file")
		replay  = flag.String("replay", "", "replay file")
		kfIdx   = flag.Int("kf", -1, "worker: replay known finding #i")
		fwAll   = flag.Bool("fw", false, "worker: replay all fixed witnesses of this property")
		tierF   = flag.String("tier", "", "tier")
	)
	flag.Parse()
	tier := *tierF
	if tier == "" && flag.NArg() > 0 {
		tier = flag.Arg(0)
	}
	if tier == "" {
		tier = os.Getenv("VERIF_TIER")
	}
	if tier == "" {
		tier = "quick"
	}
	p := Lookup(*prop)
	if p == nil {
		fmt.Printf("unknown property %q in this binary\n", *prop)
		os.Exit(2)
	}
	seed := envInt("VERIF_SEED", 1)
	if *worker {
		os.Exit(runWorker(p, tier, seed, *shard, *nshards, *out, *replay, *kfIdx, *fwAll))
	}
	if *replay != "" {
		os.Exit(runReplayParent(p, *replay))
	}
	os.Exit(runParent(p, tier, seed))
}

func loadKnown() *KnownFindings {
	kf := &KnownFindings{}
	b, err := os.ReadFile(filepath.Join(homeDir(), "known_findings.json"))
	if err != nil {
		return kf
	}
	_ = json.Unmarshal(b, kf)
	return kf
}

func runWorker(p *Property, tier string, seed int64, shard, nshards int, out, replay string, kfIdx int, fwAll bool) int {
	m := New(p.ID, tier, seed, shard, nshards, outDir())
	start := time.Now()
	switch {
	case fwAll:
		kf := loadKnown()
		m.SetReplayMode()
		for _, f := range kf.FixedWitnesses {
			if f.Property == p.ID && p.Replay != nil {
				p.Replay(m, f.Witness)
				m.Note("fixed_witnesses_replayed", 1)
			}
		}
	case kfIdx >= 0:
		kf := loadKnown()
		m.SetReplayMode()
		if kfIdx < len(kf.Findings) && p.Replay != nil {
			p.Replay(m, kf.Findings[kfIdx].Witness)
		}
	case replay != "":
		b, err := os.ReadFile(replay)
		if err != nil {
			fmt.Println("cannot read replay file:", err)
			return 2
		}
		var rf replayFile
		if err := json.Unmarshal(b, &rf); err != nil {
			fmt.Println("bad replay file:", err)
			return 2
		}
		m.SetReplayMode()
		if p.Replay == nil {
			fmt.Println("property has no replay")
			return 2
		}
		p.Replay(m, rf.Case)
	default:
		p.Run(m)
	}
	r := m.Result()
	r.WallS = time.Since(start).Seconds()
	b, _ := json.Marshal(r)
	if err := os.WriteFile(out+".tmp", b, 0o644); err != nil {
		fmt.Println("cannot write result:", err)
		return 2
	}
	_ = os.Rename(out+".tmp", out)
	return 0
}

type workerOutcome struct {
	shard    int
	res      *Result
	exitErr  error
	timedOut bool
	logPath  string
	curPath  string
}

func spawn(p *Property, args []string, env []string, logPath string, timeout time.Duration) (error, bool) {
	exe, _ := os.Executable()
	cmd := exec.Command(exe, args...)
	lf, err := os.Create(logPath)
	if err != nil {
		return err, false
	}
	defer lf.Close()
	cmd.Stdout = lf
	cmd.Stderr = lf
	cmd.Env = append(os.Environ(), env...)
	if err := cmd.Start(); err != nil {
		return err, false
	}
	done := make(chan error, 1)
	go func() { done <- cmd.Wait() }()
	select {
	case err := <-done:
		return err, false
	case <-time.After(timeout):
		_ = cmd.Process.Signal(syscall.SIGQUIT)
		select {
		case <-done:
		case <-time.After(10 * time.Second):
			_ = cmd.Process.Kill()
			<-done
		}
		return fmt.Errorf("watchdog timeout after %s", timeout), true
	}
}

func runParent(p *Property, tier string, seed int64) int {
	start := time.Now()
	od := outDir()
	runDir := filepath.Join(od, "run", p.ID)
	_ = os.RemoveAll(runDir)
	_ = os.MkdirAll(runDir, 0o755)
	_ = os.MkdirAll(filepath.Join(od, "evidence"), 0o755)

	n := p.QuickShards
	if n == 0 {
		n = 4
	}
	timeout := p.QuickTimeout
	if timeout == 0 {
		timeout = 8 * time.Minute
	}
	if tier == "thorough" {
		n = p.ThorShards
		if n == 0 {
			n = 16
		}
		timeout = p.ThorTimeout
		if timeout == 0 {
			timeout = 60 * time.Minute
		}
	}
	if v := envInt("VERIF_SHARDS", 0); v > 0 {
		n = int(v)
	}

	kf := loadKnown()

	// 1. re-execute the pinned witnesses of this property's known findings.
	knownSigs := map[string]KnownFinding{}
	var kfLines []string
	for i, f := range kf.Findings {
		if f.Property != p.ID {
			continue
		}
		knownSigs[f.Sig] = f
		outF := filepath.Join(runDir, fmt.Sprintf("kf-%d.json", i))
		env := []string{}
		if p.Race {
			env = append(env, "GORACE=halt_on_error=0 log_path="+filepath.Join(runDir, fmt.Sprintf("race-kf%d", i)))
		}
		err, _ := spawn(p, []string{"-prop", p.ID, "-worker", "-tier", tier, "-kf", strconv.Itoa(i), "-out", outF},
			env, filepath.Join(runDir, fmt.Sprintf("kf-%d.log", i)), 5*time.Minute)
		reproduced := false
		if b, rerr := os.ReadFile(outF); rerr == nil {
			var r Result
			if json.Unmarshal(b, &r) == nil {
				for _, v := range r.Violations {
					if v.Sig == f.Sig {
						reproduced = true
					}
				}
			}
		} else if err != nil && strings.HasPrefix(f.Sig, "crash") {
			reproduced = true
		}
		if reproduced {
			kfLines = append(kfLines, fmt.Sprintf("KNOWN-FINDING: property=%s %s [sig=%s]", p.ID, f.What, f.Sig))
		} else {
			kfLines = append(kfLines, fmt.Sprintf("NOTE: known finding sig=%s of %s did not reproduce from its pinned witness on this tree", f.Sig, p.ID))
		}
	}

	// 2. exploration workers.
	outcomes := make([]workerOutcome, n+1)
	var wg sync.WaitGroup
	wg.Add(1)
	go func() {
		defer wg.Done()
		outF := filepath.Join(runDir, "fw.json")
		logF := filepath.Join(runDir, "fw.log")
		env := []string{}
		if p.Race {
			env = append(env, "GORACE=halt_on_error=0 log_path="+filepath.Join(runDir, "race-fw"))
		}
		err, to := spawn(p, []string{"-prop", p.ID, "-worker", "-tier", tier, "-fw", "-shard", "99", "-out", outF}, env, logF, 10*time.Minute)
		o := workerOutcome{shard: 99, exitErr: err, timedOut: to, logPath: logF, curPath: filepath.Join(runDir, "shard-99.cur")}
		if b, rerr := os.ReadFile(outF); rerr == nil {
			var r Result
			if json.Unmarshal(b, &r) == nil {
				o.res = &r
			}
		}
		outcomes[n] = o
	}()
	for i := 0; i < n; i++ {
		wg.Add(1)
		go func(i int) {
			defer wg.Done()
			outF := filepath.Join(runDir, fmt.Sprintf("shard-%d.json", i))
			logF := filepath.Join(runDir, fmt.Sprintf("shard-%d.log", i))
			env := []string{}
			if p.Race {
				env = append(env, "GORACE=halt_on_error=0 log_path="+filepath.Join(runDir, fmt.Sprintf("race-%d", i)))
			}
			err, to := spawn(p, []string{"-prop", p.ID, "-worker", "-tier", tier, "-shard", strconv.Itoa(i), "-nshards", strconv.Itoa(n), "-out", outF}, env, logF, timeout)
			o := workerOutcome{shard: i, exitErr: err, timedOut: to, logPath: logF, curPath: filepath.Join(runDir, fmt.Sprintf("shard-%d.cur", i))}
			if b, rerr := os.ReadFile(outF); rerr == nil {
				var r Result
				if json.Unmarshal(b, &r) == nil {
					o.res = &r
				}
			}
			outcomes[i] = o
		}(i)
	}
	wg.Wait()

	// 3. merge.
	var (
		evals, distinctCalls int64
		distinct             = map[uint64]struct{}{}
		capped               bool
		classes              = map[string]int64{}
		notes                = map[string]int64{}
		sets                 = map[string]map[string]struct{}{}
		samples              []json.RawMessage
		violations           []Violation
		vioBySig             = map[string]int{}
		inconclusive         []string
	)
	for _, o := range outcomes {
		if o.res == nil {
			if o.timedOut {
				inconclusive = append(inconclusive, fmt.Sprintf("shard %d: %v (see %s)", o.shard, o.exitErr, o.logPath))
				continue
			}
			// the worker died: the last marked case is the witness.
			cur, _ := os.ReadFile(o.curPath)
			tail := tailFile(o.logPath, 60)
			if why := environmentFailure(o.exitErr, tail); why != "" {
				// killed from outside (OOM killer, operator) or out of a machine resource: nothing was observed about the property
				inconclusive = append(inconclusive, fmt.Sprintf("shard %d: %s (%v; see %s)", o.shard, why, o.exitErr, o.logPath))
				continue
			}
			sig := "crash:" + crashClass(tail)
			var raw json.RawMessage
			if json.Valid(cur) {
				raw = cur
			}
			violations = append(violations, Violation{Sig: sig, Detail: fmt.Sprintf("worker %d died (%v); log tail:\n%s", o.shard, o.exitErr, tail), Case: raw})
			vioBySig[sig]++
			continue
		}
		r := o.res
		evals += r.Evals
		distinctCalls += r.DistinctN
		capped = capped || r.Capped
		for _, k := range r.Distinct {
			distinct[k] = struct{}{}
		}
		for k, v := range r.Classes {
			classes[k] += v
		}
		for k, v := range r.Notes {
			notes[k] += v
		}
		for k, l := range r.Sets {
			s := sets[k]
			if s == nil {
				s = map[string]struct{}{}
				sets[k] = s
			}
			for _, e := range l {
				s[e] = struct{}{}
			}
		}
		if len(samples) < 8 {
			for _, s := range r.Samples {
				if len(samples) < 8 {
					samples = append(samples, s)
				}
			}
		}
		violations = append(violations, r.Violations...)
		for k, v := range r.VioBySig {
			vioBySig[k] += v
		}
	}

	// 4. race reports.
	raceReports := 0
	raceDistinct := map[string]string{}
	if p.Race {
		files, _ := filepath.Glob(filepath.Join(runDir, "race-*"))
		for _, f := range files {
			for _, blk := range parseRaceLog(f) {
				raceReports++
				key := raceKey(blk)
				if _, ok := raceDistinct[key]; !ok {
					raceDistinct[key] = blk
				}
			}
		}
		keys := make([]string, 0, len(raceDistinct))
		for k := range raceDistinct {
			keys = append(keys, k)
		}
		sort.Strings(keys)
		for _, k := range keys {
			sig := "race:" + k
			violations = append(violations, Violation{Sig: sig, Detail: raceDistinct[k]})
			vioBySig[sig]++
		}
	}

	// 5. classify against known findings, write replay files.
	_ = os.MkdirAll(filepath.Join(od, "replays"), 0o755)
	unknown := 0
	knownHits := map[string]int{}
	var vioLines []string
	seenSig := map[string]int{}
	for i := range violations {
		v := &violations[i]
		if _, ok := knownSigs[v.Sig]; ok {
			knownHits[v.Sig] += 1
			continue
		}
		unknown++
		seenSig[v.Sig]++
		if seenSig[v.Sig] > 3 {
			continue
		}
		rf := replayFile{Property: p.ID, Sig: v.Sig, Detail: v.Detail, Seed: seed, Tier: tier, Case: v.Case}
		b, _ := json.MarshalIndent(rf, "", " ")
		name := filepath.Join(od, "replays", fmt.Sprintf("%s-%016x.json", p.ID, Hash64(v.Sig+string(v.Case))))
		_ = os.WriteFile(name, b, 0o644)
		v.Replay = name
		first := v.Detail
		if j := strings.IndexByte(first, '\n'); j >= 0 {
			first = first[:j]
		}
		if len(first) > 300 {
			first = strings.ToValidUTF8(first[:300], "")
		}
		vioLines = append(vioLines, fmt.Sprintf("VIOLATION property=%s replay=%s sig=%s :: %s", p.ID, name, v.Sig, first))
	}
	unknownTotal := 0
	for sig, c := range vioBySig {
		if _, ok := knownSigs[sig]; !ok {
			unknownTotal += c
		}
	}

	// 6. evidence.
	nd := len(distinct)
	cov := map[string]interface{}{
		"evaluations":         evals,
		"distinct_nontrivial": nd,
		"rule":                p.Rule,
		"samples":             samples,
		"classes":             classes,
		"workers":             n,
		"nontrivial_calls":    distinctCalls,
	}
	if capped {
		cov["distinct_capped"] = true
	}
	if len(notes) > 0 {
		cov["notes"] = notes
	}
	for k, s := range sets {
		cov["set_"+k+"_size"] = len(s)
		if len(s) <= 40 {
			l := make([]string, 0, len(s))
			for e := range s {
				l = append(l, e)
			}
			sort.Strings(l)
			cov["set_"+k] = l
		}
	}
	if p.Race {
		cov["race_reports"] = raceReports
		cov["race_reports_distinct"] = len(raceDistinct)
	}
	if p.Exhaustive != nil && p.Exhaustive(tier) {
		cov["exhaustive"] = true
	}
	if len(knownHits) > 0 {
		cov["known_finding_hits"] = knownHits
	}
	if len(vioBySig) > 0 {
		cov["violations_by_sig"] = vioBySig
	}
	if samples == nil {
		cov["samples"] = []interface{}{}
	}
	verdict := "held"
	if unknown > 0 {
		verdict = "violated"
	} else if len(inconclusive) > 0 || (p.MinNontrivial > 0 && nd < p.MinNontrivial) || nd < 2 || evals == 0 {
		verdict = "inconclusive"
		if len(inconclusive) == 0 {
			inconclusive = append(inconclusive, fmt.Sprintf("coverage floor not met: distinct_nontrivial=%d floor=%d evaluations=%d", nd, p.MinNontrivial, evals))
		}
	}
	cov["verdict"] = verdict
	ev := map[string]interface{}{
		"property_id": p.ID,
		"tier":        tier,
		"seed":        seed,
		"level":       p.Level,
		"coverage":    cov,
		"assumptions": p.Assumptions,
		"wall_s":      time.Since(start).Seconds(),
		"violations":  unknownTotal,
	}
	eb, _ := json.MarshalIndent(ev, "", " ")
	_ = os.WriteFile(filepath.Join(od, "evidence", p.ID+".json"), eb, 0o644)

	// 7. report.
	for _, l := range kfLines {
		fmt.Println(l)
	}
	fmt.Printf("SUMMARY property=%s tier=%s seed=%d workers=%d evaluations=%d distinct_nontrivial=%d violations=%d known_hits=%d wall=%.1fs verdict=%s\n",
		p.ID, tier, seed, n, evals, nd, unknownTotal, len(knownHits), time.Since(start).Seconds(), verdict)
	if unknown > 0 {
		for _, l := range vioLines {
			fmt.Println(l)
		}
		return 1
	}
	if verdict == "inconclusive" {
		for _, r := range inconclusive {
			fmt.Printf("INCONCLUSIVE property=%s reason=%s\n", p.ID, r)
		}
		return 3
	}
	return 0
}

func runReplayParent(p *Property, file string) int {
	od := outDir()
	runDir := filepath.Join(od, "run", p.ID+"-replay")
	_ = os.RemoveAll(runDir)
	_ = os.MkdirAll(runDir, 0o755)
	outF := filepath.Join(runDir, "replay.json")
	logF := filepath.Join(runDir, "replay.log")
	env := []string{}
	if p.Race {
		env = append(env, "GORACE=halt_on_error=0 log_path="+filepath.Join(runDir, "race-replay"))
	}
	abs, _ := filepath.Abs(file)
	err, to := spawn(p, []string{"-prop", p.ID, "-worker", "-replay", abs, "-out", outF}, env, logF, 10*time.Minute)
	if to {
		fmt.Printf("INCONCLUSIVE property=%s reason=replay watchdog\n", p.ID)
		return 3
	}
	b, rerr := os.ReadFile(outF)
	if rerr != nil {
		if why := environmentFailure(err, tailFile(logF, 60)); why != "" {
			fmt.Printf("INCONCLUSIVE property=%s reason=replay: %s\n", p.ID, why)
			return 3
		}
		fmt.Printf("VIOLATION property=%s replay=%s sig=crash :: worker died on replay (%v)\n%s\n", p.ID, abs, err, tailFile(logF, 40))
		return 1
	}
	var r Result
	_ = json.Unmarshal(b, &r)
	nrace := 0
	if p.Race {
		files, _ := filepath.Glob(filepath.Join(runDir, "race-*"))
		for _, f := range files {
			nrace += len(parseRaceLog(f))
		}
	}
	if len(r.Violations) == 0 && nrace == 0 {
		fmt.Printf("REPLAY property=%s held on the recorded case (evaluations=%d)\n", p.ID, r.Evals)
		return 0
	}
	for _, v := range r.Violations {
		fmt.Printf("VIOLATION property=%s replay=%s sig=%s :: %s\n", p.ID, abs, v.Sig, firstLine(v.Detail))
	}
	if nrace > 0 {
		fmt.Printf("VIOLATION property=%s replay=%s sig=race :: %d race reports\n", p.ID, abs, nrace)
	}
	return 1
}

func firstLine(s string) string {
	if j := strings.IndexByte(s, '\n'); j >= 0 {
		s = s[:j]
	}
	if len(s) > 300 {
		s = strings.ToValidUTF8(s[:300], "")
	}
	return strings.ToValidUTF8(s, "?")
}

func tailFile(path string, lines int) string {
	b, err := os.ReadFile(path)
	if err != nil {
		return ""
	}
	if len(b) > 200000 {
		// keep head (panic message) and a bit of tail
		b = append(append([]byte{}, b[:6000]...), b[len(b)-2000:]...)
	}
	ls := strings.Split(string(b), "\n")
	if len(ls) > lines {
		ls = ls[:lines]
	}
	return strings.Join(ls, "\n")
}

var crashRe = regexp.MustCompile(`(?m)^(panic: |fatal error: )(.*)$`)

// environmentFailure tells a worker that died of the machine (killed by a signal the harness did not send, out of memory,
// threads, file descriptors or ports) from one that died of the code under test. The former says nothing about the property.
func environmentFailure(exitErr error, tail string) string {
	var ee *exec.ExitError
	if errors.As(exitErr, &ee) {
		if ws, ok := ee.Sys().(syscall.WaitStatus); ok && ws.Signaled() {
			switch ws.Signal() {
			case syscall.SIGKILL, syscall.SIGTERM, syscall.SIGHUP, syscall.SIGINT:
				return "worker killed by signal " + ws.Signal().String()
			}
		}
	}
	for _, m := range []string{
		"fatal error: runtime: out of memory", "cannot allocate memory", "failed to create new OS thread", "runtime: program exceeds",
		"too many open files", "httptest: failed to listen", "bind: address already in use", "cannot assign requested address",
		"no space left on device", "ThreadSanitizer: failed to", "ThreadSanitizer failed to allocate",
	} {
		if strings.Contains(tail, m) {
			return "worker died of a machine resource (" + m + ")"
		}
	}
	return ""
}

func crashClass(tail string) string {
	if m := crashRe.FindStringSubmatch(tail); m != nil {
		s := m[2]
		if len(s) > 60 {
			s = s[:60]
		}
		return strings.TrimSpace(m[1]) + s
	}
	return "unknown"
}

func parseRaceLog(path string) []string {
	f, err := os.Open(path)
	if err != nil {
		return nil
	}
	defer f.Close()
	var blocks []string
	var cur *bytes.Buffer
	sc := bufio.NewScanner(f)
	sc.Buffer(make([]byte, 1<<20), 1<<24)
	for sc.Scan() {
		l := sc.Text()
		if strings.HasPrefix(l, "WARNING: DATA RACE") {
			cur = &bytes.Buffer{}
		}
		if cur != nil {
			cur.WriteString(l)
			cur.WriteByte('\n')
			if strings.HasPrefix(l, "==================") && cur.Len() > 40 {
				blocks = append(blocks, cur.String())
				cur = nil
			}
		}
	}
	if cur != nil {
		blocks = append(blocks, cur.String())
	}
	return blocks
}

var raceFnRe = regexp.MustCompile(`(?m)^  (\S+)\(\)\s*$`)

// raceKey de-duplicates a report by the innermost non-runtime function of each of the two accesses.
func raceKey(blk string) string {
	parts := strings.Split(blk, "\n\n")
	var tops []string
	for _, part := range parts {
		if !(strings.Contains(part, "Write at") || strings.Contains(part, "Read at") || strings.Contains(part, "Previous write at") || strings.Contains(part, "Previous read at")) {
			continue
		}
		for _, m := range raceFnRe.FindAllStringSubmatch(part, -1) {
			fn := m[1]
			if strings.HasPrefix(fn, "runtime.") || strings.HasPrefix(fn, "sync") {
				continue
			}
			tops = append(tops, fn)
			break
		}
	}
	sort.Strings(tops)
	return strings.Join(tops, "|")
}
