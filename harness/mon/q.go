package mon

import (
	"encoding/json"
	"strconv"
)

// Q is a byte string that survives JSON (it may hold arbitrary bytes): it is encoded as the
// JSON string of its Go-quoted ASCII form, e.g. "\"/a/%2F\\xff\"".
type Q string

// MarshalJSON implements json.Marshaler.
func (q Q) MarshalJSON() ([]byte, error) {
	return json.Marshal(strconv.QuoteToASCII(string(q)))
}

// UnmarshalJSON implements json.Unmarshaler.
func (q *Q) UnmarshalJSON(b []byte) error {
	var s string
	if err := json.Unmarshal(b, &s); err != nil {
		return err
	}
	u, err := strconv.Unquote(s)
	if err != nil {
		// tolerate plain strings written by hand
		*q = Q(s)
		return nil
	}
	*q = Q(u)
	return nil
}

// QS converts a string slice.
func QS(l []string) []Q {
	r := make([]Q, len(l))
	for i, s := range l {
		r[i] = Q(s)
	}
	return r
}

// SQ converts back.
func SQ(l []Q) []string {
	r := make([]string, len(l))
	for i, s := range l {
		r[i] = string(s)
	}
	return r
}
