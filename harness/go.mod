module verif

go 1.20

require github.com/go-openapi/runtime v0.0.0

replace github.com/go-openapi/runtime => /repo
