module verif

go 1.20

require (
	github.com/go-openapi/errors v0.22.1
	github.com/go-openapi/loads v0.22.0
	github.com/go-openapi/runtime v0.0.0
	github.com/go-openapi/spec v0.21.0
	github.com/go-openapi/strfmt v0.23.0
	github.com/go-openapi/validate v0.24.0
	github.com/opentracing/opentracing-go v1.2.0
	go.opentelemetry.io/otel/trace v1.24.0
	gopkg.in/yaml.v3 v3.0.1
)

require (
	github.com/asaskevich/govalidator v0.0.0-20230301143203-a9d515a09cc2 // indirect
	github.com/go-logr/logr v1.4.1 // indirect
	github.com/go-logr/stdr v1.2.2 // indirect
	github.com/go-openapi/analysis v0.23.0 // indirect
	github.com/go-openapi/jsonpointer v0.21.0 // indirect
	github.com/go-openapi/jsonreference v0.21.0 // indirect
	github.com/go-openapi/swag v0.23.1 // indirect
	github.com/google/uuid v1.6.0 // indirect
	github.com/josharian/intern v1.0.0 // indirect
	github.com/mailru/easyjson v0.9.0 // indirect
	github.com/mitchellh/mapstructure v1.5.0 // indirect
	github.com/oklog/ulid v1.3.1 // indirect
	go.mongodb.org/mongo-driver v1.14.0 // indirect
	go.opentelemetry.io/otel v1.24.0 // indirect
	go.opentelemetry.io/otel/metric v1.24.0 // indirect
	golang.org/x/sync v0.11.0 // indirect
)

replace github.com/go-openapi/runtime => /repo
