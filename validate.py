#!/opt/veriftools/pyvenv/bin/python
import json, jsonschema, glob, sys
m=json.load(open('/verif/MANIFEST.json')); jsonschema.validate(m, json.load(open('/root/.vp/MANIFEST.schema.json')))
es=json.load(open('/root/.vp/EVIDENCE.schema.json'))
for c in m['checks']:
    try:
        e=json.load(open('/verif/'+c['evidence_file'])); jsonschema.validate(e, es)
        assert e['level']==c['level_claimed']['category'], (c['property_id'], 'level mismatch')
    except Exception as ex:
        print("EVIDENCE PROBLEM", c['property_id'], str(ex)[:300]); sys.exit(1)
print("manifest + %d evidence files valid" % len(m['checks']))
